#!/bin/bash
# runs the thorough tier of every check in sequence (evidence goes to out/evidence_scratch)
cd "$(dirname "$(readlink -f "$0")")"
for p in "$@"; do
  out=$(VERIF_NO_EVIDENCE=1 ./vcheck run $p --tier thorough 2>&1); rc=$?
  echo "thorough $p rc=$rc $(echo "$out" | grep 'evidence written')"
  echo "$out" | grep -E "^VIOLATION|HARNESS|sig=" | cut -c1-400
  python3 - $p <<'PY'
import json,sys
try:
    c=json.load(open('out/evidence_scratch/%s.json'%sys.argv[1]))['coverage']
    print({k:c[k] for k in c if k not in ('samples','rule','components')})
except Exception as e: print('no evidence', e)
PY
done
