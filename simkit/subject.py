"""
The subject: one fresh interpreter executing one op list against the real
jedi (imported from PYTHONPATH, i.e. /repo's working tree) under the seams of
simkit.seams.  Usage:  python subject.py <spec.json> <out.jsonl>

The subject never draws random numbers and never reads a real clock.  One JSON
line per executed op is appended to <out.jsonl> (flushed), so a killed subject
leaves a usable prefix.
"""
import gc
import json
import os
import shutil
import sys
import threading

HERE = os.path.dirname(os.path.abspath(__file__))
sys.path.insert(0, os.path.dirname(HERE))


def main():
    spec_path, out_path = sys.argv[1], sys.argv[2]
    with open(spec_path) as f:
        spec = json.load(f)

    import faulthandler
    faulthandler.enable()
    faulthandler.dump_traceback_later(spec.get('watchdog_s', 100), exit=True)

    root = spec['root']
    world = os.path.join(root, spec.get('world_dir') or 'w')
    cache = os.path.join(root, 'cache')
    sentinel = os.path.join(root, 'sentinel')
    for d in (world, cache, sentinel, os.path.join(root, 'home')):
        os.makedirs(d, exist_ok=True)
    os.environ['HOME'] = os.path.join(root, 'home')
    os.environ['JV_SENTINEL_DIR'] = sentinel
    for rel in spec.get('extra_pythonpath') or []:
        # entries of the ENVIRONMENT's sys.path (inherited by the helper through PYTHONPATH)
        p = os.path.normpath(os.path.join(root, rel))
        os.makedirs(p, exist_ok=True)
        os.environ['PYTHONPATH'] = os.environ.get('PYTHONPATH', '') + os.pathsep + p
    os.chdir(world if spec.get('cwd') else root)

    if spec.get('host_path_empty_entry'):
        # like an interactive session, `python -c` or an embedding host: '' is on sys.path
        sys.path.insert(1, '')
    if spec.get('host_path_project_entry'):
        # the program that uses jedi lives in the analysed tree (python proj/tool.py, python -m tool, an
        # editor plug-in that put the checkout on its path): the HOST's sys.path holds the project directory
        sys.path.insert(0, world)
    gc_auto = spec.get('gc_auto', False)
    if not gc_auto:
        gc.disable()

    from simkit import seams, canon as canon_mod
    import jedi
    import jedi.settings
    import jedi.cache
    import parso.cache

    clock = seams.SimClock()
    seams.install_clock(clock)
    proxy = seams.HelperProxy()
    proxy.install()
    proxy.set_plan(spec.get('faults'))
    stamper = seams.Stamper(clock, [world, cache])
    stamper.install()
    jedi.settings.cache_directory = cache
    recorder = Recorder(parso.cache)
    recorder.install()

    S = Subject(spec, root, world, cache, sentinel, clock, proxy, stamper, recorder, jedi)
    S.run(out_path)


class Recorder:
    """thin recording wrappers: which cache branch was taken (reach counters)"""

    def __init__(self, pc):
        self.pc = pc
        self.c = {}

    def bump(self, k):
        self.c[k] = self.c.get(k, 0) + 1

    def install(self):
        pc = self.pc
        rec = self
        orig_load_module = pc.load_module

        def load_module(hashed_grammar, file_io, cache_path=None):
            r = orig_load_module(hashed_grammar, file_io, cache_path=cache_path)
            rec.bump('load_hit' if r is not None else 'load_miss')
            return r
        pc.load_module = load_module
        import parso.grammar as pg
        if getattr(pg, 'load_module', None) is orig_load_module:
            pg.load_module = load_module

        orig_lffs = pc._load_from_file_system   # already wrapped by Stamper

        def _load_from_file_system(*a, **k):
            r = orig_lffs(*a, **k)
            rec.bump('pickle_hit' if r is not None else 'pickle_miss')
            return r
        pc._load_from_file_system = _load_from_file_system

        orig_set = pc._set_cache_item

        def _set_cache_item(hashed_grammar, path, item):
            before = sum(len(v) for v in pc.parser_cache.values())
            if before >= pc._CACHED_SIZE_TRIGGER:
                rec.bump('evict_branch')
            return orig_set(hashed_grammar, path, item)
        pc._set_cache_item = _set_cache_item

        try:
            from parso.python.diff import DiffParser
            orig_update = DiffParser.update

            def update(self, old_lines, new_lines):
                rec.bump('diff_parse')
                return orig_update(self, old_lines, new_lines)
            DiffParser.update = update
        except Exception:
            pass

    def take(self):
        c, self.c = self.c, {}
        return c


def _helper_children(pid):
    """[(pid, state)] of direct children of pid, from /proc"""
    out = []
    for d in os.listdir('/proc'):
        if not d.isdigit():
            continue
        try:
            with open('/proc/%s/stat' % d) as f:
                s = f.read()
        except OSError:
            continue
        r = s.rfind(')')
        fields = s[r + 2:].split()
        if int(fields[1]) == pid:
            out.append((int(d), fields[0]))
    return out


def _pipe_fds():
    n = 0
    for fd in os.listdir('/proc/self/fd'):
        try:
            t = os.readlink('/proc/self/fd/' + fd)
        except OSError:
            continue
        if t.startswith('pipe:'):
            n += 1
    return n


class Subject:
    def __init__(self, spec, root, world, cache, sentinel, clock, proxy, stamper, recorder, jedi):
        self.spec = spec
        self.root, self.world, self.cache, self.sentinel = root, world, cache, sentinel
        self.clock, self.proxy, self.stamper, self.rec = clock, proxy, stamper, recorder
        self.jedi = jedi
        from simkit import canon as cm
        self.cm = cm
        self.canon = cm.Canon(world, outer=root)
        self.scripts = {}
        self.script_ids = {}     # sid -> set of inference-state ids seen on the wire
        self.script_gen = {}     # sid -> generation index at creation
        self.refactorings = {}
        self.envs = {}
        self.projects = {}
        self.inv = set(spec.get('inv') or [])
        self.base_pipe_fds = _pipe_fds()
        self.base_threads = threading.active_count()
        self.host_base = None
        self.helper_base = {}    # generation index -> sys.path at first sight
        self.junk = []

    # ------------------------------------------------------------------
    def run(self, out_path):
        spec = self.spec
        ops = spec['ops']
        start = spec.get('start', 0)
        end = spec.get('end', len(ops))
        out = open(out_path, 'a')
        if start == 0:
            for op in spec.get('init') or []:
                self.do_fs(op)
        # ops before `start` were executed by an earlier host process: only the
        # simulated clock and the knobs are process-local state to rebuild
        for op in ops[:start]:
            if op['op'] == 'advance':
                self.clock.advance_ns(int(op['ns']))
            elif op['op'] == 'knob':
                self.do_knob(op)
        self.stamper.sweep()
        self.host_base = self.host_state()
        for i in range(start, end):
            ev = self.exec_op(i, ops[i])
            out.write(json.dumps(ev, sort_keys=True) + '\n')
            out.flush()
        if spec.get('interactive'):
            # further ops arrive one JSON line at a time on stdin; each event is echoed on stdout
            i = end
            for line in sys.stdin:
                line = line.strip()
                if not line:
                    continue
                op = json.loads(line)
                if op.get('op') == 'quit':
                    break
                ev = self.exec_op(i, op)
                txt = json.dumps(ev, sort_keys=True)
                out.write(txt + '\n')
                out.flush()
                sys.stdout.write('EV ' + txt + '\n')
                sys.stdout.flush()
                i += 1
        out.write(json.dumps({'i': 'end', 'fired': self.proxy.fired,
                              'gens': len(self.proxy.generations),
                              'reqs': self.proxy.req_counter,
                              'restamped': self.stamper.restamped,
                              'clock_reads': self.clock.reads}, sort_keys=True) + '\n')
        out.close()
        sys.stdout.flush()
        os._exit(0)

    def exec_op(self, i, op):
        spec = self.spec
        n0 = self.proxy.req_counter
        f0 = len(self.proxy.fired)
        self.proxy.current_ids = set()
        ev = {'i': i, 'op': op['op']}
        try:
            res = self.dispatch(op)
        except HarnessError as e:
            ev['harness_error'] = str(e)
            res = None
        ev['res'] = res
        ev['reqs'] = [n0 + 1, self.proxy.req_counter]
        fired = self.proxy.fired[f0:]
        if fired:
            ev['fired'] = fired
        ev['fns'] = [r['fn'] for r in self.proxy.reqlog[n0:self.proxy.req_counter]] \
            if spec.get('log_fns') else None
        if ev['fns'] is None:
            del ev['fns']
        ev['gen'] = len(self.proxy.generations)
        st = [r['k'] for r in self.proxy.reqlog[n0:self.proxy.req_counter] if r.get('state') and r['fn'] != '<delete>']
        if st:
            ev['first_state_req'] = st[0]
        if any(r.get('on_dead') for r in self.proxy.reqlog[n0:self.proxy.req_counter]):
            ev['on_dead'] = True
            ev['on_dead_gens'] = sorted({r['gen'] for r in self.proxy.reqlog[n0:self.proxy.req_counter]
                                         if r.get('on_dead')})
        if op['op'] == 'script' and getattr(self, 'last_bound_gen', None) is not None and res == 'ok':
            ev['bound_gen'] = self.last_bound_gen
        cnt = self.rec.take()
        if cnt:
            ev['cache'] = cnt
        self.stamper.sweep()
        bad = self.check_invariants(op)
        if bad:
            ev['inv_bad'] = bad
        if 'snap' in self.inv:
            ev['snap'] = self.last_snap
        ev['now'] = self.clock.ns
        return ev

    # ------------------------------------------------------------------
    def dispatch(self, op):
        k = op['op']
        return getattr(self, 'op_' + k)(op)

    def abspath(self, rel):
        if rel is None:
            return None
        return os.path.join(self.world, rel)

    def get_env(self, name):
        if name in (None, 'default'):
            return None
        if name not in self.envs:
            if name == 'interpreter':
                # analysis of compiled objects happens inside the host process itself
                self.envs[name] = self.jedi.InterpreterEnvironment()
            else:
                from jedi.api.environment import create_environment
                self.envs[name] = create_environment(sys.executable, safe=False)
        return self.envs[name]

    def get_project(self, p):
        if p is None:
            return None
        key = json.dumps(p, sort_keys=True)
        if p.get('fresh') or key not in self.projects:
            kw = {}
            for k in ('smart_sys_path', 'load_unsafe_extensions'):
                if k in p:
                    kw[k] = p[k]
            if 'sys_path' in p and p['sys_path'] is not None:
                kw['sys_path'] = [self.expand(x) for x in p['sys_path']]
            if 'added_sys_path' in p:
                kw['added_sys_path'] = [self.expand(x) for x in p['added_sys_path']]
            root_arg = self.expand(p.get('path', '.'))
            if p.get('pathlib_rel'):
                # what a caller writes as Project(Path('.')) / Project(Path('sub')): a RELATIVE pathlib.Path
                import pathlib
                root_arg = pathlib.Path(os.path.relpath(root_arg, os.getcwd()))
            self.projects[key] = self.jedi.Project(root_arg, **kw)
        return self.projects[key]

    def expand(self, x):
        if x == '<env>':
            return x
        return os.path.normpath(os.path.join(self.world, x))

    def make_script(self, op):
        kw = {}
        if op.get('path') is not None:
            # relpath: the caller addresses the file relative to the process cwd (which is the world then)
            kw['path'] = op['path'] if op.get('relpath') else self.abspath(op['path'])
        env = self.get_env(op.get('env'))
        if env is not None:
            kw['environment'] = env
        proj = self.get_project(op.get('project'))
        if proj is not None:
            kw['project'] = proj
        code = op.get('code')
        if code is not None and '<<W>>' in code:
            code = code.replace('<<W>>', self.world)
        if code is None and op.get('path') is not None:
            return self.jedi.Script(**kw)       # read from disk
        return self.jedi.Script(code, **kw)

    # ---- ops -----------------------------------------------------------
    def op_script(self, op):
        sid = op['sid']
        try:
            s = self.make_script(op)
        except BaseException as e:
            if isinstance(e, (SystemExit, MemoryError)):
                raise
            return ['EXC', type(e).__name__]
        self.scripts[sid] = s
        self.script_ids[sid] = set()
        self.script_gen[sid] = self.bound_generation(s)
        self.last_bound_gen = self.script_gen[sid]
        return 'ok'

    def bound_generation(self, script):
        """index of the helper generation this Script is bound to (None: no helper)"""
        try:
            cs = script._inference_state.compiled_subprocess._compiled_subprocess
            for dct in cs.__dict__.get('_memoize_method_dct', {}).values():
                for v in dct.values():
                    if v in self.proxy.generations:
                        return v.index
        except AttributeError:
            return None
        return len(self.proxy.generations) - 1

    def op_probe(self, op):
        s = self.scripts.get(op['sid'])
        if s is None:
            return ['NOSCRIPT']
        r = self.cm.run_probe(s, op['p'], self.canon)
        self.script_ids[op['sid']] |= self.proxy.current_ids
        return r

    def op_query(self, op):
        """new Script + probes + drop (the editor pattern)"""
        try:
            s = self.make_script(op)
        except BaseException as e:
            if isinstance(e, (SystemExit, MemoryError)):
                raise
            return {'script': ['EXC', type(e).__name__], 'probes': []}
        # a crowd: further Scripts showing the same text under other paths (many editor tabs) stay alive
        # while the main one is asked, and are all discarded - and finalised in ONE collector run -
        # at the end of the op
        crowd, crowd_res = [], []
        for j in range(int(op.get('crowd') or 0)):
            try:
                s2 = self.make_script(dict(op, path='crowd_%d.py' % j))
            except BaseException as e:
                if isinstance(e, (SystemExit, MemoryError)):
                    raise
                crowd_res.append([['EXC', type(e).__name__]])
                continue
            crowd.append(s2)
            crowd_res.append([self.cm.run_probe(s2, p, self.canon) for p in op['probes'][:2]])
        out = []
        for p in op['probes']:
            out.append(self.cm.run_probe(s, p, self.canon))
        r = {'script': 'ok', 'probes': out}
        if op.get('crowd'):
            r['crowd'] = crowd_res
            del crowd
            del s2
            gc.collect()
        if op.get('tree'):
            r['tree'] = tree_digest(s._module_node)
            r['tree_fresh'] = fresh_tree_digest(op.get('code'), s)
            if r['tree'] != r['tree_fresh'] and self.spec.get('reset_diverged'):
                import parso.cache as pc
                for d in pc.parser_cache.values():
                    d.pop(s.path if s.path is None else str(s.path), None)
                    d.pop(s.path, None)
        del s
        return r

    def op_drop(self, op):
        self.scripts.pop(op['sid'], None)
        for k in [k for k in self.refactorings if k.startswith(op['sid'] + ':')]:
            del self.refactorings[k]
        return 'ok'

    def op_gc(self, op):
        gc.collect()
        return 'ok'

    def op_advance(self, op):
        self.clock.advance_ns(int(op['ns']))
        return 'ok'

    def op_knob(self, op):
        return self.do_knob(op)

    def do_knob(self, op):
        import parso.cache as pc
        import jedi.settings as st
        name, val = op['name'], op['value']
        if name == 'cached_size_trigger':
            pc._CACHED_SIZE_TRIGGER = val
        elif name == 'call_signatures_validity':
            st.call_signatures_validity = val
        elif name == 'fast_parser':
            st.fast_parser = val
        elif name == 'cropped_file_size':
            st._cropped_file_size = val
        else:
            raise HarnessError('unknown knob %r' % name)
        return 'ok'

    def op_clear_caches(self, op):
        import jedi.cache
        jedi.cache.clear_time_caches(bool(op.get('delete_all')))
        return 'ok'

    def op_kill_helper(self, op):
        if self.spec.get('reference'):
            return 'skipped'
        alive = [x for x in self.proxy.generations if not x.dead and x.real.poll() is None]
        if not alive:
            return 'nohelper'
        g = alive[-1] if op.get('pick') is None else alive[int(op['pick']) % len(alive)]
        g.sim_kill()
        self.proxy.fired.append({'k': self.proxy.req_counter, 'phase': 'kill_idle', 'fn': None, 'gen': g.index})
        return 'killed'

    def op_perturb(self, op):
        """seeded allocator perturbation: shapes pymalloc free lists"""
        n, seed = int(op.get('n', 1000)), int(op.get('seed', 1))
        x = seed & 0x7fffffff or 1
        objs = []
        for i in range(n):
            x = (x * 1103515245 + 12345) & 0x7fffffff
            sz = x % 7
            if sz == 0:
                objs.append(object())
            elif sz == 1:
                objs.append([None] * (x % 13))
            elif sz == 2:
                objs.append({'a': i})
            elif sz == 3:
                objs.append((i, x))
            elif sz == 4:
                objs.append(frozenset((i,)))
            elif sz == 5:
                objs.append(type('T', (), {})())
            else:
                objs.append(bytearray(x % 97))
        keep = []
        for i, o in enumerate(objs):
            x = (x * 1103515245 + 12345) & 0x7fffffff
            if x % 3 == 0 and op.get('keep', True):
                keep.append(o)
        self.junk.append(keep)
        del objs
        return 'ok'

    def op_project_search(self, op):
        proj = self.get_project(op.get('project') or {'path': '.'})
        try:
            if op.get('complete'):
                res = proj.complete_search(op['q'])
                return [self.canon.completion(c) for c in res]
            res = proj.search(op['q'], all_scopes=bool(op.get('all_scopes')))
            return [self.canon.name(n, light=True) for n in res]
        except BaseException as e:
            if isinstance(e, (SystemExit, MemoryError)):
                raise
            return ['EXC', type(e).__name__]

    def op_fs(self, op):
        return self.do_fs(op)

    # -- refactoring ------------------------------------------------------
    def op_refactor(self, op):
        s = self.scripts.get(op['sid'])
        if s is None:
            return ['NOSCRIPT']
        kind = op['kind']
        a = op.get('args') or {}
        try:
            if kind == 'rename':
                r = s.rename(a['l'], a['c'], new_name=a['new'])
            elif kind == 'inline':
                r = s.inline(a['l'], a['c'])
            elif kind == 'extract_variable':
                r = s.extract_variable(a['l'], a['c'], new_name=a['new'],
                                       until_line=a.get('ul'), until_column=a.get('uc'))
            elif kind == 'extract_function':
                r = s.extract_function(a['l'], a['c'], new_name=a['new'],
                                       until_line=a.get('ul'), until_column=a.get('uc'))
            else:
                raise HarnessError('unknown refactoring %r' % kind)
        except HarnessError:
            raise
        except BaseException as e:
            if isinstance(e, (SystemExit, MemoryError)):
                raise
            return ['EXC', type(e).__name__]
        self.refactorings[op['sid'] + ':' + op['rid']] = r
        return self.describe_refactoring(r, op.get('order', 'code_first'))

    def describe_refactoring(self, r, order='code_first'):
        """order: which accessor an editor calls first (preview the diff, then
        look at / apply the code - or the other way round)"""
        diff_first = None
        if order not in ('code_first', 'cf_diff_first'):
            diff_first = self.canon.text(r.get_diff())
        files = {}
        cf_unstable = []
        for p, cf in sorted(r.get_changed_files().items(), key=lambda kv: str(kv[0])):
            if order == 'cf_diff_first':
                # the caller keeps the ChangedFile object and previews ITS diff before reading its code
                d1 = cf.get_diff()
                code = cf.get_new_code()
                if cf.get_diff() != d1:
                    cf_unstable.append(self.canon.path(p))
            else:
                code = cf.get_new_code()
            files[self.canon.path(p) or '<pathless>'] = code
        renames = [[self.canon.path(a), self.canon.path(b)] for a, b in r.get_renames()]
        diff = self.canon.text(r.get_diff())
        out = {'files': files, 'renames': renames, 'diff': diff if diff_first is None else diff_first,
               'diff_again': diff}
        if cf_unstable:
            out['cf_diff_unstable'] = cf_unstable
        return out

    def op_refactor_inspect(self, op):
        r = self.refactorings.get(op['sid'] + ':' + op['rid'])
        if r is None:
            return ['NOREF']
        return self.describe_refactoring(r, op.get('order', 'code_first'))

    def op_refactor_apply(self, op):
        r = self.refactorings.get(op['sid'] + ':' + op['rid'])
        if r is None:
            return ['NOREF']
        try:
            r.apply()
        except BaseException as e:
            if isinstance(e, (SystemExit, MemoryError)):
                raise
            return ['EXC', type(e).__name__]
        return 'applied'

    def op_snapshot(self, op):
        return self.fs_snapshot()

    def fs_snapshot(self):
        snap = {}
        for dirpath, dirnames, filenames in os.walk(self.world):
            dirnames.sort()
            rel = os.path.relpath(dirpath, self.world)
            if rel != '.' and not filenames and not dirnames:
                snap[rel + '/'] = None
            for fn in sorted(filenames):
                p = os.path.join(dirpath, fn)
                with open(p, 'rb') as f:
                    data = f.read()
                r = os.path.normpath(os.path.join(rel, fn))
                snap[r] = data.decode('utf-8', 'surrogateescape')
        return snap

    # -- census (C14) ------------------------------------------------------
    def op_census(self, op):
        """drop nothing; collect garbage, drain the deletion queue with one
        state-less request, then read the helper-side table and the OS-level
        resources.  The signature time cache legitimately keeps the inference
        state of a discarded Script alive until it expires, so the census first
        lets simulated time pass and runs the expiry every Script construction
        runs (jedi.cache.clear_time_caches())."""
        import jedi.cache
        self.clock.advance_ns(int(op.get('settle_ns', 4 * 10**9)))
        jedi.cache.clear_time_caches()
        gc.collect()
        out = {}
        g = self.proxy.current
        if op.get('drain', True) and g is not None and not g.dead:
            # find the CompiledSubprocess that owns the current generation
            cs = self.find_compiled_subprocess(g)
            if cs is not None and not cs.is_crashed:
                from jedi.inference.compiled.subprocess import functions
                try:
                    cs.run(None, functions.get_sys_path)
                    out['drain'] = 'ok'
                except BaseException as e:
                    out['drain'] = ['EXC', type(e).__name__]
        if g is not None and not g.dead:
            ok, val = g.raw_eval(
                "sorted([o for o in __import__('gc').get_objects() "
                "if type(o).__name__ == 'Listener'][0]._inference_states)")
            if ok:
                live = set()
                for sid in self.scripts:
                    if self.script_gen.get(sid) == g.index:
                        live |= self.script_ids.get(sid, set())
                out['table_n'] = len(val)
                out['table_ok'] = (set(val) == live & g.table) and (set(val) == g.table)
                out['expected_n'] = len(live & g.table)
            else:
                out['table'] = val
        kids = _helper_children(os.getpid())
        out['zombies'] = sum(1 for _, st in kids if st == 'Z')
        live_pids = {gg.pid for gg in self.proxy.generations}
        out['children'] = len(kids)
        out['alive_helpers'] = sum(1 for p, st in kids if st != 'Z' and p in live_pids)
        out['pipe_fds'] = _pipe_fds() - self.base_pipe_fds
        out['threads'] = threading.active_count() - self.base_threads
        return out

    def find_compiled_subprocess(self, g):
        for o in gc.get_objects():
            if type(o).__name__ == 'CompiledSubprocess':
                d = o.__dict__.get('_memoize_method_dct')
                if d:
                    for dct in d.values():
                        for v in dct.values():
                            if v is g:
                                return o
        return None

    # -- file system -------------------------------------------------------
    def do_fs(self, op):
        kind = op['kind']
        p = self.abspath(op['path'])
        parent = os.path.dirname(p)
        mt = op.get('mt')
        dmt = op.get('dmt')
        try:
            pst = os.stat(parent)
        except OSError:
            pst = None
        if kind == 'write':
            os.makedirs(parent, exist_ok=True)
            with open(p, 'w', newline='') as f:
                f.write(op['content'])
            if mt is not None:
                os.utime(p, ns=(mt, mt))
        elif kind == 'write_zip':
            import zipfile
            os.makedirs(parent, exist_ok=True)
            with zipfile.ZipFile(p, 'w') as z:
                for name, member in sorted(op['members'].items()):
                    zi = zipfile.ZipInfo(name, date_time=(2017, 7, 14, 2, 40, 0))
                    z.writestr(zi, member['text'].encode(member.get('encoding', 'utf-8')))
            if mt is not None:
                os.utime(p, ns=(mt, mt))
        elif kind == 'write_via_rename':
            os.makedirs(parent, exist_ok=True)
            tmp = p + '.tmp~'
            with open(tmp, 'w', newline='') as f:
                f.write(op['content'])
            if mt is not None:
                os.utime(tmp, ns=(mt, mt))
            os.replace(tmp, p)
        elif kind == 'delete':
            if os.path.isdir(p):
                shutil.rmtree(p)
            elif os.path.exists(p):
                os.remove(p)
        elif kind == 'rename':
            dst = self.abspath(op['dst'])
            os.makedirs(os.path.dirname(dst), exist_ok=True)
            if os.path.isdir(dst):
                shutil.rmtree(dst)
            if os.path.exists(p):
                os.replace(p, dst)
                if mt is not None and os.path.exists(dst):
                    os.utime(dst, ns=(mt, mt))      # `mv` + `touch`: the renamed file/directory gets a fresh stamp
            ddir = os.path.dirname(dst)
            if dmt is not None and ddir != parent:
                os.utime(ddir, ns=(dmt, dmt))
        elif kind == 'mkdir':
            os.makedirs(p, exist_ok=True)
            if mt is not None:
                os.utime(p, ns=(mt, mt))
        elif kind == 'utime':
            if os.path.exists(p) and mt is not None:
                os.utime(p, ns=(mt, mt))
        else:
            raise HarnessError('unknown fs kind %r' % kind)
        # parent directory stamp: explicit, or restored to what it was
        # ("directory timestamp unchanged") when dmt is the string 'keep'
        if os.path.isdir(parent):
            if dmt == 'keep':
                if pst is not None:
                    os.utime(parent, ns=(pst.st_atime_ns, pst.st_mtime_ns))
            elif dmt is not None:
                os.utime(parent, ns=(dmt, dmt))
        return 'ok'

    # -- standing invariants -----------------------------------------------
    def host_state(self):
        return {'path': list(sys.path), 'cwd': os.getcwd(), 'environ': dict(os.environ)}

    def check_invariants(self, op):
        bad = []
        inv = self.inv
        if 'sentinel' in inv:
            names = sorted(os.listdir(self.sentinel))
            if names:
                bad.append(['sentinel', names[:5]])
        if 'host' in inv:
            cur = self.host_state()
            for k in ('path', 'cwd', 'environ'):
                if cur[k] != self.host_base[k]:
                    if k == 'path':
                        rr = os.path.realpath(self.root)
                        norm = lambda x: str(x).replace(rr, '<root>').replace(self.root, '<root>')   # noqa: E731
                        bad.append(['host_path', {'added': [norm(x) for x in cur[k] if x not in self.host_base[k]][:5],
                                                  'removed': [norm(x) for x in self.host_base[k] if x not in cur[k]][:5]}])
                    else:
                        bad.append(['host_' + k])
            wr = os.path.realpath(self.world)
            leaked = []
            for name, m in list(sys.modules.items()):
                f = getattr(m, '__file__', None)
                if f and os.path.realpath(str(f)).startswith(wr + os.sep):
                    leaked.append(name)
            if leaked:
                bad.append(['host_modules', sorted(leaked)[:5]])
        if 'helper' in inv:
            g = self.proxy.current
            if g is not None and not g.dead:
                ok, val = g.raw_eval(
                    "(list(__import__('sys').path), sorted(n for n, m in __import__('sys').modules.items()"
                    " if str(getattr(m, '__file__', None) or '').startswith(%r)), __import__('os').getcwd())"
                    % (os.path.realpath(self.root) + os.sep))
                if ok:
                    hp, hm, hcwd = val
                    base = self.helper_base.setdefault(g.index, (hp, hcwd))
                    if hp != base[0]:
                        # the statement is about project code: an entry the helper's own environment added
                        # (e.g. setuptools' vendor directory once its distutils shim has run) is not the
                        # analysed project's doing; entries inside the scratch root, lost entries or a
                        # changed order of the original ones are
                        rr = os.path.realpath(self.root)
                        added = [x for x in hp if x not in base[0]]
                        kept = [x for x in hp if x in base[0]]
                        if kept != list(base[0]) or any(
                                x == '' or os.path.realpath(str(x)).startswith(rr) or not os.path.isabs(str(x))
                                for x in added):
                            bad.append(['helper_path', [str(x).replace(rr, '<root>') for x in added][:3]])
                    if hcwd != base[1]:
                        bad.append(['helper_cwd'])
                    if hm:
                        bad.append(['helper_modules', hm[:5]])
        if 'snap' in inv:
            import hashlib
            snap = {}
            for k, v in self.fs_snapshot().items():
                snap[k] = None if v is None else hashlib.sha1(v.encode('utf-8', 'surrogateescape')).hexdigest()[:12]
            self.last_snap = snap
        if 'zombie' in inv:
            # a helper whose death the host has observed must have been reaped
            for g in self.proxy.generations:
                if g.dead and self._observed(g):
                    try:
                        with open('/proc/%d/stat' % g.pid) as f:
                            s = f.read()
                        st = s[s.rfind(')') + 2:].split()[0]
                        ppid = int(s[s.rfind(')') + 2:].split()[1])
                        if st == 'Z' and ppid == os.getpid():
                            bad.append(['zombie', g.index])
                    except OSError:
                        pass
        return bad

    def _observed(self, g):
        # the host has observed the death once a request was attempted on the dead generation
        return any(r['gen'] == g.index and (r.get('on_dead') or r.get('fault')) for r in self.proxy.reqlog)


class HarnessError(Exception):
    pass


def tree_digest(node):
    import hashlib
    h = hashlib.sha1()

    def walk(n):
        ch = getattr(n, 'children', None)
        if ch is None:
            h.update(repr((n.type, n.value, n.prefix, n.start_pos)).encode())
        else:
            h.update(repr((n.type, n.start_pos, len(ch))).encode())
            for c in ch:
                walk(c)
    walk(node)
    return h.hexdigest()[:12]


def fresh_tree_digest(code, script):
    import parso
    code = script._code     # the text the Script actually analyses (read from disk / cropped by settings)
    g = script._inference_state.grammar
    mod = g.parse(code=code, cache=False, diff_cache=False)
    return tree_digest(mod)


if __name__ == '__main__':
    main()
