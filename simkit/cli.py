"""vcheck run <ID> [--tier quick|thorough] | vcheck replay <file> | vcheck selftest <ID>"""
import argparse
import json
import os
import sys

HERE = os.path.dirname(os.path.abspath(__file__))
sys.path.insert(0, os.path.dirname(HERE))


def main():
    ap = argparse.ArgumentParser()
    sub = ap.add_subparsers(dest='cmd', required=True)
    r = sub.add_parser('run')
    r.add_argument('pid')
    r.add_argument('--tier', default=os.environ.get('VERIF_TIER', 'quick'))
    p = sub.add_parser('replay')
    p.add_argument('path')
    s = sub.add_parser('selftest')
    s.add_argument('pid')
    s.add_argument('--n', type=int, default=40)
    a = ap.parse_args()
    from simkit import base, engines
    if a.cmd == 'run':
        seed = int(os.environ.get('VERIF_SEED', '0') or 0)
        tier = a.tier if a.tier in ('quick', 'thorough') else 'quick'
        rc = base.run_check(engines.get(a.pid), tier, seed)
        sys.exit(rc)
    if a.cmd == 'replay':
        with open(a.path) as f:
            pid = json.load(f)['property']
        sys.exit(base.replay(engines.get(pid), a.path))
    if a.cmd == 'selftest':
        from simkit import selftest
        sys.exit(selftest.run(a.pid, a.n))


if __name__ == '__main__':
    main()
