"""vcheck run <ID> [--tier quick|thorough] | vcheck replay <file> | vcheck selftest <ID>"""
import argparse
import json
import os
import sys

HERE = os.path.dirname(os.path.abspath(__file__))
sys.path.insert(0, os.path.dirname(HERE))


def main():
    ap = argparse.ArgumentParser()
    sub = ap.add_subparsers(dest='cmd', required=True)
    r = sub.add_parser('run')
    r.add_argument('pid')
    r.add_argument('--tier', default=os.environ.get('VERIF_TIER', 'quick'))
    p = sub.add_parser('replay')
    p.add_argument('path')
    s = sub.add_parser('selftest')
    s.add_argument('pid')
    s.add_argument('--n', type=int, default=40)
    a = ap.parse_args()
    from simkit import base, engines
    if a.cmd == 'run':
        seed = int(os.environ.get('VERIF_SEED', '0') or 0)
        tier = a.tier if a.tier in ('quick', 'thorough') else 'quick'
        try:
            rc = base.run_check(engines.get(a.pid), tier, seed)
        except BaseException as e:      # a crash of the machinery is never a verdict (exit 1 means VIOLATION)
            if isinstance(e, SystemExit):
                raise
            import traceback
            traceback.print_exc()
            print('HARNESS-ERROR: %s: %s' % (type(e).__name__, e))
            sys.exit(2)
        sys.exit(rc)
    if a.cmd == 'replay':
        with open(a.path) as f:
            pid = json.load(f)['property']
        try:
            rc = base.replay(engines.get(pid), a.path)
        except BaseException as e:
            if isinstance(e, SystemExit):
                raise
            import traceback
            traceback.print_exc()
            print('HARNESS-ERROR: %s: %s' % (type(e).__name__, e))
            sys.exit(2)
        sys.exit(rc)
    if a.cmd == 'selftest':
        from simkit import selftest
        sys.exit(selftest.run(a.pid, a.n))


if __name__ == '__main__':
    main()
