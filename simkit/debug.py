"""debug helper: run a C14 replay file and dump ref/run events side by side"""
import json, sys, os
sys.path.insert(0, os.path.dirname(os.path.dirname(os.path.abspath(__file__))))
from simkit import driver
from simkit.props import c14
body = json.load(open(sys.argv[1]))
case = body['case']
print('faults', case.get('faults'))
ref = c14.run_one(case, True); run = c14.run_one(case, False)
for op, a, b in zip(case['ops'], ref.events, run.events):
    o = dict(op); o.pop('code', None)
    print(json.dumps(o)[:150])
    print('   ref', json.dumps({k: v for k, v in a.items() if k in ('res','reqs','gen')})[:250])
    print('   run', json.dumps({k: v for k, v in b.items() if k in ('res','reqs','gen','fired','on_dead','inv_bad','fns')})[:700])
print(run.end, run.stderr[-500:])
