"""
Seams installed inside the *subject* interpreter before the first jedi call.

Everything here is driven by the op list; nothing draws random numbers and
nothing reads a real clock.

  SimClock        replaces the ``time`` attribute of jedi.cache / parso.cache /
                  jedi.debug (each of those modules does ``import time`` and
                  calls ``time.time()``).
  HelperProxy     wraps jedi.inference.compiled.subprocess._GeneralizedPopen:
                  the real helper process is started, but the stdin/stdout
                  objects handed to jedi are proxies that number every request,
                  tee the complete reply before serving it and apply the fault
                  plan (death of the helper at a chosen protocol point).
  Stamper         gives every file jedi/parso writes (pickles, lock file,
                  refactoring output) a *simulated* mtime/atime.
"""
import io
import os
import pickle
import signal
import sys

EPOCH_NS = 1_500_000_000 * 10**9      # simulated "now" at start, far in the past of the real clock
KERNEL_STAMP_THRESHOLD = 1.7e9        # any stamp above this was written by the kernel, not by us


class SimClock:
    """Stands in for the ``time`` module where jedi/parso read the clock."""

    def __init__(self, start_ns=EPOCH_NS):
        self.ns = start_ns
        self.reads = 0

    def time(self):
        self.reads += 1
        return self.ns / 1e9

    def advance_ns(self, d):
        self.ns += d

    # jedi.debug uses time.time() only; anything else is a harness error
    def __getattr__(self, name):
        raise AttributeError('SimClock has no %r: a clock read the simulator does not own' % name)


# --------------------------------------------------------------------------
# helper pipe proxy
# --------------------------------------------------------------------------

class _Tee:
    """Exposes read/readline/readinto only (no peek), records consumed bytes."""

    def __init__(self, raw):
        self.raw = raw
        self.buf = bytearray()

    def read(self, n=-1):
        b = self.raw.read(n)
        self.buf += b
        return b

    def readline(self):
        b = self.raw.readline()
        self.buf += b
        return b

    def readinto(self, mv):
        b = self.raw.read(len(mv))
        mv[:len(b)] = b
        self.buf += b
        return len(b)


class _ProxyStdin:
    def __init__(self, gen):
        self.gen = gen
        self.pending = bytearray()
        self.closed = False

    def write(self, b):
        self.pending += b
        return len(b)

    def flush(self):
        if not self.pending:
            return
        data = bytes(self.pending)
        self.pending = bytearray()
        self.gen.on_request(data)

    def close(self):
        self.closed = True
        self.gen.real.stdin.close()


class _ProxyStdout:
    def __init__(self, gen):
        self.gen = gen
        self.data = b''
        self.pos = 0
        self.closed = False

    def feed(self, b):
        # whatever was not consumed of an earlier reply is dropped: the
        # protocol is strictly request/reply
        self.data = b
        self.pos = 0

    def _fill(self):
        # jedi reads a reply: the complete next reply object is pulled from the real pipe now
        # (lazily, so that messages the code under test does not wait an answer for - whatever
        # the protocol in the tree is - do not block the proxy)
        if self.pos >= len(self.data) and not self.closed:
            self.feed(self.gen.pull_reply())

    def read(self, n=-1):
        self._fill()
        if n is None or n < 0:
            n = len(self.data) - self.pos
        b = self.data[self.pos:self.pos + n]
        self.pos += len(b)
        return b

    def readline(self):
        self._fill()
        i = self.data.find(b'\n', self.pos)
        end = len(self.data) if i < 0 else i + 1
        b = self.data[self.pos:end]
        self.pos = end
        return b

    def readinto(self, mv):
        b = self.read(len(mv))
        mv[:len(b)] = b
        return len(b)

    def close(self):
        self.closed = True
        self.gen.real.stdout.close()


class Generation:
    """One helper process and its proxied pipes."""

    def __init__(self, proxy, real, index):
        self.proxy = proxy
        self.real = real
        self.index = index
        self.pid = real.pid
        self.stdin = _ProxyStdin(self)
        self.stdout = _ProxyStdout(self)
        self.stderr = real.stderr
        self.dead = False           # the simulator (or an injected exception) killed it
        self.death_req = None
        self.requests = 0
        self.table = set()          # model of Listener._inference_states keys
        self.read_fault = None      # (phase, fault, rec, k) to apply when jedi reads the next reply
        self.eof = False            # the reply stream has ended (helper dead): reads return b''

    # Popen interface used by jedi
    def kill(self):
        return self.real.kill()

    def wait(self, *a, **k):
        return self.real.wait(*a, **k)

    def poll(self):
        return self.real.poll()

    @property
    def returncode(self):
        return self.real.returncode

    # -- simulator side ------------------------------------------------
    def sim_kill(self):
        """SIGKILL the helper and wait until it is dead WITHOUT reaping it, so
        that reaping stays jedi's job and a missing wait() shows as a zombie."""
        if self.dead:
            return
        try:
            os.kill(self.pid, signal.SIGKILL)
        except ProcessLookupError:
            pass
        self._await_death()
        self.dead = True
        self.death_req = self.proxy.req_counter

    def _await_death(self):
        try:
            os.waitid(os.P_PID, self.pid, os.WEXITED | os.WNOWAIT)
        except ChildProcessError:
            pass

    def _real_send(self, data):
        try:
            self.real.stdin.write(data)
            self.real.stdin.flush()
        except BrokenPipeError:
            return False
        return True

    def _real_roundtrip(self, data):
        """write one request to the real helper, return the complete raw reply
        (b'' / a prefix if the helper died)."""
        if not self._real_send(data):
            return None
        return self._real_reply()

    def _real_reply(self):
        """the complete next raw reply of the real helper (b'' / a prefix if it died)"""
        tee = _Tee(self.real.stdout)
        try:
            from jedi._compatibility import Unpickler
            Unpickler(tee).load()
        except EOFError:
            pass
        except Exception:
            # a reply that cannot be unpickled here is still served verbatim
            pass
        return bytes(tee.buf)

    def on_request(self, data):
        p = self.proxy
        p.req_counter += 1
        k = p.req_counter
        self.requests += 1
        try:
            payload = pickle.loads(data)
            is_id, func = payload[0], payload[1]
            fname = getattr(func, '__name__', 'None') if func is not None else '<delete>'
        except Exception:
            payload, is_id, fname = None, None, '<unparsed>'
        rec = {'k': k, 'gen': self.index, 'fn': fname, 'state': is_id is not None}
        if p.current_ids is not None and is_id is not None:
            p.current_ids.add(is_id)
        p.reqlog.append(rec)

        fault = p.plan.get(k)
        if fault is None and p.fn_plan:
            # faults addressed by (function name, occurrence)
            occ = p.fn_seen.get(fname, 0) + 1
            p.fn_seen[fname] = occ
            fault = p.fn_plan.get('%s#%d' % (fname, occ))
        if self.dead:
            # helper was killed while idle (op kill_helper) or earlier: the
            # real pipe decides what the write does
            rec['on_dead'] = True
            fault = None
        if fault is not None and fault['phase'] == 'gc_now':
            # not a fault of the helper: the simulator decides that the garbage collector
            # runs its finalizers at THIS protocol point (inside CompiledSubprocess._send)
            import gc
            rec['gc_now'] = True
            p.fired.append({'k': k, 'phase': 'gc_now', 'fn': fname, 'gen': self.index})
            gc.collect()
            fault = None
        if fault is not None:
            rec['fault'] = fault['phase']
            p.fired.append({'k': k, 'phase': fault['phase'], 'fn': fname, 'gen': self.index})

        phase = fault['phase'] if fault else None

        if phase == 'kill_before_send':
            self.sim_kill()
            # fall through to the real write, which now hits a closed pipe
        elif phase == 'die_by_exception':
            from jedi.inference.compiled.subprocess import functions
            exc = {'KeyboardInterrupt': KeyboardInterrupt, 'SystemExit': SystemExit}[fault.get('exc', 'KeyboardInterrupt')]
            data = pickle.dumps((None, functions._test_raise_error, (None, exc), {}), 4)
        elif phase == 'reply_exception':
            from jedi.inference.compiled.subprocess import functions
            exc = {'ValueError': ValueError, 'KeyError': KeyError, 'RuntimeError': RuntimeError,
                   'AttributeError': AttributeError, 'OSError': OSError}[fault.get('exc', 'RuntimeError')]
            data = pickle.dumps((None, functions._test_raise_error, (None, exc), {}), 4)

        elif phase == 'host_interrupt':
            # not a fault of the helper: the user hits Ctrl-C while the host is about to talk to the
            # helper; nothing has been sent yet, so the protocol stays in step
            raise KeyboardInterrupt()

        elif phase == 'raise_in_handler':
            # the helper stays alive; the request reaches the Listener under the Script's own
            # inference-state id (so the helper-side state is created) and the handler raises an
            # ordinary exception, which the protocol ships back
            from jedi.inference.compiled.subprocess import functions
            exc = {'ValueError': ValueError, 'KeyError': KeyError, 'RuntimeError': RuntimeError,
                   'AttributeError': AttributeError, 'OSError': OSError}[fault.get('exc', 'RuntimeError')]
            if is_id is not None and func is not None:
                data = pickle.dumps((is_id, functions._test_raise_error, (exc,), {}), 4)
        elif phase == 'flood_then_die':
            # the helper writes a long report to stderr (traceback, faulthandler or sanitizer
            # dump) and then dies with the request in flight
            from jedi.inference.compiled.subprocess import functions
            n = int(fault.get('lines', 1500))
            if fault.get('binary'):
                import builtins
                junk = b'native crash report \xff\xfe\x80 caf\xe9 100%% %s\n' * n
                pre = pickle.dumps((None, builtins.eval, ("__import__('os').write(2, %r)" % (junk,),), {}), 4)
            else:
                pre = pickle.dumps((None, functions._test_print, (None,), {'stderr': ('stderr line of a dying helper: heap usage 93% of %s, %d objects\n' * n)}), 4)
            self._real_roundtrip(pre)

        # keep the model of the helper-side table (only for requests that are delivered)
        delivered = phase not in ('kill_before_send', 'die_by_exception', 'reply_exception') and not self.dead
        if delivered and is_id is not None:
            if func is None:
                self.table.discard(is_id)
            else:
                self.table.add(is_id)

        if self.dead:
            try:
                self.real.stdin.write(data)
                self.real.stdin.flush()
            except BrokenPipeError:
                rec['epipe'] = True
                raise
            # the write "succeeded" into a pipe nobody reads (cannot happen
            # once the child is dead and reaped by nobody: read end is closed)
            self.eof = True
            return

        if not self._real_send(data):
            rec['epipe'] = True
            raise BrokenPipeError(32, 'Broken pipe')
        if phase in ('kill_after_send', 'flood_then_die', 'truncate_reply', 'die_by_exception'):
            # the death happens while jedi waits for the reply to THIS message
            self.read_fault = (phase, fault, rec, k)

    def pull_reply(self):
        """jedi reads from the helper's stdout and the previous reply is used up"""
        if self.eof or self.dead:
            return b''
        reply = self._real_reply()
        rf, self.read_fault = self.read_fault, None
        if rf is None:
            return reply
        phase, fault, rec, k = rf
        if phase in ('kill_after_send', 'flood_then_die'):
            self.sim_kill()
            reply = b''
        elif phase == 'truncate_reply':
            self.sim_kill()
            frac = fault.get('frac')
            if frac is not None:
                n = max(0, min(len(reply) - 1, int(len(reply) * frac)))
            else:
                n = max(0, min(len(reply) - 1, int(fault.get('n', 1))))
                if fault.get('from_end'):
                    n = max(0, len(reply) - int(fault.get('n', 1)))
            rec['cut'] = [n, len(reply)]
            reply = reply[:n]
        elif phase == 'die_by_exception':
            # the helper really dies of the BaseException; wait for it
            self._await_death()
            self.dead = True
            self.death_req = k
        self.eof = True
        return reply

    def raw_eval(self, expr):
        """side channel: evaluate an expression inside the helper; not numbered,
        not subject to faults.  Returns (ok, value)."""
        if self.dead or self.real.poll() is not None:
            return False, 'dead'
        import builtins
        data = pickle.dumps((None, builtins.eval, (expr,), {}), 4)
        raw = self._real_roundtrip(data)
        if not raw:
            return False, 'eof'
        try:
            is_exc, tb, res = pickle.loads(raw)
        except Exception as e:
            return False, 'unpickle:%s' % type(e).__name__
        if is_exc:
            return False, 'exc:%s' % type(res).__name__
        return True, res


class HelperProxy:
    def __init__(self):
        self.generations = []
        self.req_counter = 0
        self.plan = {}          # request number -> fault dict
        self.fn_plan = {}       # "fname#occurrence" -> fault dict
        self.fn_seen = {}
        self.fired = []
        self.reqlog = []
        self.current_ids = None  # set collecting inference-state ids seen during the current op
        self._orig = None

    def install(self):
        import jedi.inference.compiled.subprocess as sp
        self._orig = sp._GeneralizedPopen
        sp._GeneralizedPopen = self._popen

    def _popen(self, *args, **kwargs):
        real = self._orig(*args, **kwargs)
        gen = Generation(self, real, len(self.generations))
        self.generations.append(gen)
        return gen

    def set_plan(self, faults):
        for f in faults or []:
            if 'req' in f:
                self.plan[int(f['req'])] = f
            elif 'fn' in f:
                self.fn_plan['%s#%d' % (f['fn'], int(f.get('occ', 1)))] = f

    @property
    def current(self):
        return self.generations[-1] if self.generations else None


# --------------------------------------------------------------------------
# stamping of files written by jedi/parso
# --------------------------------------------------------------------------

class Stamper:
    def __init__(self, clock, roots):
        self.clock = clock
        self.roots = [r for r in roots if r]
        self.restamped = 0

    def stamp_now(self, path, atime_only=False):
        try:
            st = os.stat(path)
        except OSError:
            return
        ns = self.clock.ns
        if atime_only:
            os.utime(path, ns=(ns, st.st_mtime_ns))
        else:
            os.utime(path, ns=(ns, ns))

    def install(self):
        import parso.cache as pc
        stamper = self

        orig_save = pc._save_to_file_system

        def _save_to_file_system(hashed_grammar, path, item, cache_path=None):
            r = orig_save(hashed_grammar, path, item, cache_path=cache_path)
            stamper.stamp_now(pc._get_hashed_path(hashed_grammar, path, cache_path=cache_path))
            return r
        pc._save_to_file_system = _save_to_file_system

        orig_load = pc._load_from_file_system

        def _load_from_file_system(hashed_grammar, path, p_time, cache_path=None):
            r = orig_load(hashed_grammar, path, p_time, cache_path=cache_path)
            if r is not None:
                stamper.stamp_now(pc._get_hashed_path(hashed_grammar, path, cache_path=cache_path),
                                  atime_only=True)
            return r
        pc._load_from_file_system = _load_from_file_system

        orig_touch = pc._touch

        def _touch(path):
            r = orig_touch(path)
            stamper.stamp_now(path)
            return r
        pc._touch = _touch

    def sweep(self):
        """backstop: anything under the roots still carrying a kernel stamp gets
        the current simulated instant (time does not move inside a step, so
        this is exact).  Returns number of files restamped."""
        n = 0
        for root in self.roots:
            for dirpath, dirnames, filenames in os.walk(root):
                for name in filenames + dirnames + ['.']:
                    p = os.path.join(dirpath, name)
                    try:
                        st = os.lstat(p)
                    except OSError:
                        continue
                    m_bad = st.st_mtime > KERNEL_STAMP_THRESHOLD
                    a_bad = st.st_atime > KERNEL_STAMP_THRESHOLD
                    if m_bad or a_bad:
                        ns = self.clock.ns
                        os.utime(p, ns=(ns if a_bad else st.st_atime_ns,
                                        ns if m_bad else st.st_mtime_ns))
                        if m_bad:
                            n += 1
        self.restamped += n
        return n


def install_clock(clock):
    import jedi.cache
    import jedi.debug
    import parso.cache
    jedi.cache.time = clock
    parso.cache.time = clock
    jedi.debug.time = clock
