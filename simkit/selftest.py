"""
Determinism self-test: the same case (op list + fault plan + hash seed) must
produce the identical event log whatever the worker slot, pool size or moment.
  vcheck selftest <ID> [--n N]
Runs N generated cases three times (pool sizes 16, 4 and - for a subset - 1)
and compares verdict + event-log digest.  Any difference is a harness bug:
exit 2.  Also reports (informational) how many cases keep their digest under a
different PYTHONHASHSEED.
"""
import json
import os
import sys
import time

from simkit import driver, engines


def cases_for(pid, n, seed=12345):
    eng = engines.get(pid)
    mod = sys.modules[eng.__class__.__module__]
    if pid == 'C14':
        out = []
        for i in range(n):
            r = driver.rng_for(seed, 'selftest', 'C14', i)
            sc = mod.gen_scenario(r, 'st%d' % i) if i % 5 else mod.gen_lifecycle(r, 'stl%d' % i, 25)
            sc['_nreq'] = 120
            c = eng.random_plan(r, sc, i)
            c.pop('_ref', None)
            c.pop('_nreq', None)
            out.append(c)
        return out
    return [mod.gen_case(seed, 'quick', i) for i in range(n)]


def run_round(pid, cases, workers):
    os.environ['VERIF_WORKERS'] = str(workers)
    res = {}
    for c, r in driver.run_cases(pid, cases, workers=workers):
        res[c['id']] = (r['verdict'], (r.get('stats') or {}).get('digest'), r.get('sig'))
    return res


def run(pid, n):
    driver.setup_pyc_prefix()
    try:
        t0 = time.time()
        cases = cases_for(pid, n)
        a = run_round(pid, cases, 16)
        b = run_round(pid, cases, 4)
        sub = cases[:max(2, n // 8)]
        c = run_round(pid, sub, 1)
        bad = []
        for cid in a:
            if a[cid] != b.get(cid):
                bad.append((cid, a[cid], b.get(cid)))
        for cid in c:
            if a[cid] != c[cid]:
                bad.append((cid, a[cid], c[cid]))
        herr = sum(1 for v in a.values() if v[0] == 'harness_error')
        print('selftest %s: %d cases x (pool 16, pool 4) + %d x pool 1 in %.0fs; digest mismatches: %d; harness errors: %d'
              % (pid, len(cases), len(sub), time.time() - t0, len(bad), herr))
        for x in bad[:10]:
            print('  MISMATCH', x)
        # informational: other hash seed
        if pid != 'C16':
            alt = [dict(cs, hashseed=cs.get('hashseed', 0) + 101) for cs in cases[:max(4, n // 4)]]
            d = run_round(pid, alt, 16)
            same = sum(1 for cid in d if d[cid][:2] == a[cid][:2])
            print('  under another PYTHONHASHSEED: %d of %d cases keep verdict and event-log digest (informational)'
                  % (same, len(d)))
        return 2 if bad or herr > len(cases) // 10 else 0
    finally:
        driver.cleanup_pyc_prefix()
