"""registry of property engines (imported lazily so that forked workers share them)"""
import importlib

_NAMES = {
    'C14': 'simkit.props.c14',
    'C16': 'simkit.props.c16',
    'C08': 'simkit.props.c08',
    'C09': 'simkit.props.c09',
    'C12': 'simkit.props.c12',
    'C07': 'simkit.props.c07',
}
_cache = {}


def get(name):
    if name not in _cache:
        _cache[name] = importlib.import_module(_NAMES[name]).ENGINE
    return _cache[name]


def names():
    return list(_NAMES)
