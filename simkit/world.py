"""
Seeded generator of project worlds and probe buffers (driver side, pure
functions of the rng).

Identifier pools are unique per file *version*: every answer is attributable to
exactly one version of one file ("make every written value unique"), so a stale
answer is recognisable by name alone.  Stable API names (Klass, func, VALUE,
method, prop, Child) let buffers keep referring to a module across versions.

The constructs stay inside the sandbox-safe subset (typeshed is an empty
directory in this sandbox): project classes/functions, str/int/float receivers,
values reached through calls/attributes.
"""

SENTINEL = (
    "import os as _jv_os\n"
    "open(_jv_os.path.join(_jv_os.environ['JV_SENTINEL_DIR'], %r), 'w').close()\n"
)

RET_EXPRS = ['"s"', '1', '1.5', 'b"x"', 'Klass()', 'self', 'None']


def tag_of(dotted, ver):
    return '%s_v%d' % (dotted.replace('.', '_'), ver)


def gen_module_source(rng, dotted, ver, imports=(), sentinel_id=None, shape=None):
    """shape: dict of booleans/ints fixing the optional parts (so that two
    versions can differ only in the tag); None = draw from rng."""
    t = tag_of(dotted, ver)
    if shape is None:
        shape = gen_shape(rng)
    L = []
    L.append('"""Module %s version %d."""' % (dotted, ver))
    if sentinel_id is not None:
        L.append(SENTINEL % sentinel_id)
    for imp in imports:
        L.append(imp)
    L.append('')
    L.append('')
    L.append('class Klass:')
    L.append('    """Klass doc %s"""' % t)
    L.append('    kattr_%s = %s' % (t, shape['kattr_val']))
    L.append('')
    L.append('    def __init__(self, p_%s=0):' % t)
    L.append('        self.inst_%s = p_%s' % (t, t))
    L.append('')
    nparams = shape['method_params']
    params = ', '.join('a%d_%s' % (i, t) for i in range(nparams))
    L.append('    def method(self%s, b_%s=2):' % (', ' + params if params else '', t))
    L.append('        """method doc %s"""' % t)
    L.append('        return %s' % shape['method_ret'].replace('self', 'self'))
    L.append('')
    if shape['only']:
        L.append('    def only_%s(self):' % t)
        L.append('        return 1')
        L.append('')
    if shape['prop']:
        L.append('    @property')
        L.append('    def prop(self):')
        L.append('        return self.inst_%s' % t)
        L.append('')
    if shape['static']:
        L.append('    @staticmethod')
        L.append('    def smeth(s_%s):' % t)
        L.append('        return "x"')
        L.append('')
    L.append('')
    if shape['child']:
        L.append('class Child(Klass):')
        L.append('    def child_%s(self):' % t)
        L.append('        return Klass()')
        L.append('')
        L.append('')
    fparams = ['x_%s' % t]
    if shape['func_params'] >= 2:
        fparams.append('y_%s=3' % t)
    if shape['func_params'] >= 3:
        fparams.append('*')
        fparams.append('key_%s=None' % t)
    L.append('def func(%s):' % ', '.join(fparams))
    L.append('    """func doc %s"""' % t)
    L.append('    return %s' % ('Klass(x_%s)' % t if shape['func_ret'] == 'Klass()' else
                                 shape['func_ret'] if shape['func_ret'] not in ('self',) else '1'))
    L.append('')
    L.append('')
    if shape['extra_fn']:
        L.append('def fn_%s(q):' % t)
        L.append('    return q')
        L.append('')
        L.append('')
    if shape.get('tie'):
        # names that differ only in case from VALUE / NUM (they tie on the completion sort key) and are
        # defined BEFORE them: a query that looks VALUE up first must not change the order of `mod.`
        L.append('value = "v"')
        L.append('num = 2.5')
    L.append('VALUE = func(1)')
    L.append('NAME_%s = "text"' % t)
    L.append('NUM = 7')
    if shape['multi']:
        L.append('if NUM:')
        L.append('    ALT = func')
        L.append('else:')
        L.append('    ALT = Klass')
    return '\n'.join(L) + '\n'


def gen_shape(rng):
    return {
        'kattr_val': rng.choice(['1', '"k"', '2.5']),
        'method_params': rng.randint(0, 2),
        'method_ret': rng.choice(['"s"', '1', '1.5', 'Klass()', 'self']),
        'only': rng.random() < 0.6,
        'prop': rng.random() < 0.5,
        'static': rng.random() < 0.3,
        'child': rng.random() < 0.5,
        'func_params': rng.randint(1, 3),
        'func_ret': rng.choice(['"s"', '1', 'Klass()', '1.5']),
        'extra_fn': rng.random() < 0.5,
        'multi': rng.random() < 0.3,
        'tie': rng.random() < 0.5,
    }


class World:
    """files: rel path -> text;  mods: dotted name -> {'ver', 'kind', 'path'}"""

    def __init__(self):
        self.files = {}
        self.mods = {}
        self.sentinels = False
        self._sid = 0

    def clone(self):
        w = World()
        w.files = dict(self.files)
        w.mods = {k: dict(v) for k, v in self.mods.items()}
        w.sentinels = self.sentinels
        w._sid = self._sid
        return w

    def next_sentinel(self):
        if not self.sentinels:
            return None
        self._sid += 1
        return 'f%d' % self._sid

    def mod_path(self, dotted, kind):
        base = dotted.replace('.', '/')
        return base + '/__init__.py' if kind == 'package' else base + '.py'

    def set_module(self, rng, dotted, ver, kind='module', imports=(), shape=None):
        path = self.mod_path(dotted, kind)
        src = gen_module_source(rng, dotted, ver, imports=imports,
                                sentinel_id=self.next_sentinel(), shape=shape)
        self.files[path] = src
        self.mods[dotted] = {'ver': ver, 'kind': kind, 'path': path}
        return path, src


TOP = ['ma', 'mb', 'mc', 'md', 'me', 'mf']
PKG = ['pa', 'pb']
NSP = ['na']
SUB = ['sa', 'sb']


def gen_world(rng, n_top=None, with_pkg=True, with_ns=None, sentinels=False, cross_imports=True):
    w = World()
    w.sentinels = sentinels
    n_top = n_top or rng.randint(2, 4)
    tops = TOP[:n_top]
    for i, m in enumerate(tops):
        imports = []
        if cross_imports and i > 0 and rng.random() < 0.5:
            other = tops[rng.randrange(i)]
            imports.append('from %s import Klass as Base_%s' % (other, other))
        w.set_module(rng, m, 1, imports=imports)
    if with_pkg:
        for p in PKG[:rng.randint(1, 2)]:
            w.set_module(rng, p, 1, kind='package')
            for s in SUB[:rng.randint(1, 2)]:
                imports = []
                if rng.random() < 0.4:
                    imports.append('from . import Klass as PkgKlass')
                w.set_module(rng, p + '.' + s, 1, imports=imports)
    if with_ns is None:
        with_ns = rng.random() < 0.4
    if with_ns:
        for s in SUB[:1]:
            w.set_module(rng, 'na.' + s, 1)
    return w


# ---------------------------------------------------------------------------
# probe buffers
# ---------------------------------------------------------------------------

class Buffer:
    def __init__(self):
        self.lines = []
        self.probes = []

    def add(self, text, probes=()):
        """probes: list of (method, column or substring-after-which, kwargs)"""
        self.lines.append(text)
        ln = len(self.lines)
        for m, at, kw in probes:
            if isinstance(at, str):
                col = text.index(at) + len(at)
            else:
                col = at
            p = {'m': m, 'l': ln, 'c': col}
            if kw:
                p['kw'] = kw
            self.probes.append(p)

    @property
    def text(self):
        return '\n'.join(self.lines) + '\n'


def gen_probe_buffer(rng, world_mods, max_probes=10, style=None):
    """world_mods: list of dotted names that the buffer may import (need not
    exist any more: unresolved imports are a legitimate state)."""
    b = Buffer()
    tops = [m for m in world_mods if '.' not in m]
    subs = [m for m in world_mods if '.' in m]
    used = []
    rng.shuffle(tops)
    plain = tops[:max(1, min(len(tops), rng.randint(1, 3)))]
    for m in plain:
        b.add('import %s' % m)
        used.append(('mod', m, m))
    fr = [m for m in tops if m not in plain][:2]
    for m in fr:
        b.add('from %s import func as f_%s, Klass as K_%s' % (m, m, m))
        used.append(('from', m, m))
    star = None
    if subs and rng.random() < 0.7:
        s = rng.choice(subs)
        form = rng.choice(['import_as', 'from_pkg', 'star'])
        if form == 'import_as':
            b.add('import %s as sub_x' % s)
            used.append(('mod', 'sub_x', s))
        elif form == 'from_pkg':
            pk, sn = s.rsplit('.', 1)
            b.add('from %s import %s' % (pk, sn))
            used.append(('mod', sn, s))
        else:
            b.add('from %s import *' % s)
            star = s
    b.add('')
    cands = []
    for kind, ref, real in used:
        if kind == 'mod':
            cands.append(lambda ref=ref: b.add('%s.func' % ref, [('complete', ref + '.', None)]))
            cands.append(lambda ref=ref: b.add('%s.func' % ref, [('infer', ref + '.fu', None)]))
            cands.append(lambda ref=ref: b.add('%s.func' % ref, [('goto', ref + '.fu', {'follow_imports': True})]))
            cands.append(lambda ref=ref: b.add('%s.func(1, 2)' % ref, [('get_signatures', ref + '.func(', None)]))
            cands.append(lambda ref=ref: b.add('%s.Klass(1)' % ref, [('get_signatures', ref + '.Klass(', None)]))
            cands.append(lambda ref=ref: b.add('o_%s = %s.Klass()' % (ref, ref)) or
                         b.add('o_%s.method' % ref, [('complete', 'o_%s.' % ref, None)]))
            cands.append(lambda ref=ref: b.add('v_%s = %s.VALUE' % (ref, ref)) or
                         b.add('v_%s' % ref, [('infer', 'v_', None)]))
            cands.append(lambda ref=ref: b.add('r_%s = %s.Klass().method()' % (ref, ref)) or
                         b.add('r_%s.x' % ref, [('complete', 'r_%s.' % ref, None)]))
            cands.append(lambda ref=ref: b.add('%s.Klass().method(1)' % ref,
                                               [('get_signatures', '.method(', None)]))
            cands.append(lambda ref=ref: b.add('%s.Klass' % ref, [('help', ref + '.Kl', None)]))
            cands.append(lambda ref=ref: b.add('%s.Child' % ref, [('infer', ref + '.Chi', None)]))
            cands.append(lambda ref=ref: b.add('%s.ALT' % ref, [('infer', ref + '.AL', None)]))
        else:
            cands.append(lambda ref=ref: b.add('f_%s(1, 2)' % ref, [('get_signatures', 'f_%s(' % ref, None)]))
            cands.append(lambda ref=ref: b.add('K_%s' % ref, [('infer', 'K_', None)]))
            cands.append(lambda ref=ref: b.add('K_%s' % ref, [('goto', 'K_', {'follow_imports': True})]))
            cands.append(lambda ref=ref: b.add('K_%s().method' % ref, [('complete', 'K_%s().' % ref, None)]))
            cands.append(lambda ref=ref: b.add('f_%s(1).x' % ref, [('complete', 'f_%s(1).' % ref, None)]))
    if star:
        cands.append(lambda: b.add('func(1, 2)', [('get_signatures', 'func(', None)]))
        cands.append(lambda: b.add('Klass', [('infer', 'Kla', None)]))
        cands.append(lambda: b.add('VALUE', [('goto', 'VAL', {'follow_imports': True})]))
        cands.append(lambda: b.add('NAM', [('complete', 'NAM', None)]))
    rng.shuffle(cands)
    for c in cands[:max_probes]:
        c()
    if rng.random() < 0.5:
        b.add('from %s import ' % rng.choice(tops), [('complete', 'import ', None)])
    return b


# ---------------------------------------------------------------------------
# corpus buffers: slices of the repository's own completion fixtures (real-world shapes the
# seeded grammar does not produce: decorators, descriptors, nested scopes, comprehensions,
# flow analysis, broken code ...).  The slice becomes part of the case, so a replay file does
# not depend on the corpus.
# ---------------------------------------------------------------------------

CORPUS = ['classes', 'functions', 'generators', 'decorators', 'descriptors', 'flow_analysis', 'lambdas',
          'inheritance', 'isinstance', 'dynamic_params', 'recursion', 'named_param', 'ordering', 'usages',
          'goto', 'comprehensions', 'docstring', 'invalid', 'precedence', 'context', 'dynamic_arrays',
          'basic', 'named_expression', 'keywords', 'async_', 'complex', 'parser']


def corpus_slice(rng, min_lines=30, max_lines=110):
    """-> (name, text) a window of a fixture file that starts and ends at a top-level boundary"""
    import os
    root = os.path.join(os.environ.get('VERIF_REPO', '/repo'), 'test', 'completion')
    names = [n for n in CORPUS if os.path.exists(os.path.join(root, n + '.py'))]
    if not names:
        return None, None
    name = rng.choice(names)
    with open(os.path.join(root, name + '.py'), encoding='utf-8', errors='replace') as f:
        lines = f.read().split('\n')
    tops = [i for i, l in enumerate(lines) if l and not l[0].isspace() and (i == 0 or not lines[i - 1].strip()
                                                                             or not lines[i - 1][0].isspace())]
    if not tops:
        tops = [0]
    start = rng.choice(tops)
    want = rng.randint(min_lines, max_lines)
    ends = [t for t in tops if t - start >= want]
    end = ends[0] if ends else len(lines)
    end = min(end, start + max_lines + 40)
    text = '\n'.join(lines[start:end]).rstrip('\n') + '\n'
    # keep the text inside what splitlines()/JSON round-trips (fixtures are ASCII but for a few lines)
    return name, text
