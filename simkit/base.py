"""
Common check flow: cases -> pooled execution -> group violations -> minimise
-> known-finding match (with counterfactual confirmation where the engine
provides it) -> replay file -> evidence -> exit code.

Exit codes: 0 held on everything explored; 1 VIOLATION printed; 2 harness error.
"""
import collections
import json
import os
import sys
import time

from simkit import driver


class Engine:
    pid = None
    level = 'exploration'
    technique = ''
    assumptions = []
    components = {}
    max_shrink_sigs = 3

    # -- to implement --------------------------------------------------------
    def run(self, tier, seed, budget_s):
        """returns list of (case, result)"""
        raise NotImplementedError

    def execute(self, case):
        raise NotImplementedError

    def shrink(self, case, result):
        return case, result

    def known_match(self, case, result, known):
        return None

    def coverage(self, pairs, tier):
        raise NotImplementedError

    # -- helpers -----------------------------------------------------------------
    def strip(self, case):
        return {k: v for k, v in case.items() if not k.startswith('_')}


def budget_for(tier, quick=75, thorough=1500):
    b = os.environ.get('VERIF_BUDGET_S')
    if b:
        return float(b)
    return quick if tier == 'quick' else thorough


def run_check(engine, tier, seed):
    t0 = time.time()
    driver.setup_pyc_prefix()
    try:
        return _run_check(engine, tier, seed, t0)
    finally:
        driver.cleanup_pyc_prefix()


def _run_check(engine, tier, seed, t0):
    pid = engine.pid
    print('check property=%s tier=%s VERIF_SEED=%d' % (pid, tier, seed), flush=True)
    known = driver.load_known()
    pairs = engine.run(tier, seed, budget_for(tier, *getattr(engine, 'budgets', (75, 1500))))
    verdicts = collections.Counter(r['verdict'] for _, r in pairs)
    print('verdicts: %s' % dict(verdicts), flush=True)

    viol = [(c, r) for c, r in pairs if r['verdict'] == 'violation']
    by_sig = collections.OrderedDict()
    for c, r in viol:
        by_sig.setdefault(r.get('sig', '?'), []).append((c, r))

    n_viol = 0
    known_hits = collections.Counter()
    lines = []
    # known-finding matching may need counterfactual replays (fresh subjects): do it for all
    # violating cases in parallel threads first
    import concurrent.futures as _cf
    km = {}
    with _cf.ThreadPoolExecutor(max_workers=8) as ex:
        futs = {ex.submit(engine.known_match, c, r, known): id(r) for c, r in viol}
        for f, key in futs.items():
            try:
                km[key] = f.result()
            except Exception as e:      # matching must never hide a violation
                print('known_match failed: %r' % (e,))
                km[key] = None
    for sig, lst in by_sig.items():
        # 1. is every case of this signature covered by a listed finding?
        unmatched = []
        for c, r in lst:
            kf = km.get(id(r))
            if kf is not None:
                known_hits[kf['id']] += 1
            else:
                unmatched.append((c, r))
        if not unmatched:
            continue
        # 2. minimise one representative, re-judge the minimal case
        c, r = unmatched[0]
        try:
            mc, mr = engine.shrink(c, r)
        except Exception as e:   # shrinking must never hide a violation
            print('shrink failed: %r' % (e,))
            mc, mr = c, r
        if mr.get('verdict') != 'violation':
            mc, mr = c, r
        kf = engine.known_match(mc, mr, known)
        if kf is not None and len(unmatched) == 1:
            known_hits[kf['id']] += 1
            continue
        n_viol += 1
        path = driver.write_replay(pid, engine.strip(mc), mr)
        lines.append('VIOLATION property=%s replay=%s' % (pid, path))
        print('  sig=%s cases=%d detail=%s' % (mr.get('sig'), len(unmatched),
                                             json.dumps(mr.get('detail'))[:600]))
    for k in known['findings']:
        if k.get('property') == pid:
            n = known_hits.get(k['id'], 0)
            print('KNOWN-FINDING: property=%s %s (%s; %s)'
                  % (pid, k['what'], k['id'],
                     'reproduced %d times in this run' % n if n else 'listed; not exercised by this run\'s sample'))
    for line in lines:
        print(line)

    herr = [(c, r) for c, r in pairs if r['verdict'] == 'harness_error']
    try:
        cov = engine.coverage(pairs, tier)
    except Exception as e:
        # reporting must not turn a clean run into an error: fall back to what can always be counted
        import traceback
        traceback.print_exc()
        digests = {(r.get('stats') or {}).get('digest') for _, r in pairs if r['verdict'] != 'harness_error'}
        cov = {'evaluations': sum(1 for _, r in pairs if r['verdict'] != 'harness_error'),
               'distinct_nontrivial': len(digests - {None}),
               'rule': 'fallback (the engine-specific coverage summary raised %s): one evaluation = one executed case; '
                       'distinct = distinct event-log digests' % type(e).__name__,
               'samples': [{'id': c.get('id')} for c, _ in pairs[:3]]}
    cov['verdicts'] = dict(verdicts)
    cov['known_findings_hit'] = dict(known_hits)
    wall = time.time() - t0
    n_eval = cov.get('evaluations', 0)
    cov['runs_per_hour'] = int(n_eval / wall * 3600) if wall > 0 else 0
    cov['components'] = engine.components
    driver.write_evidence(pid, tier, seed, engine.level, cov, wall, n_viol, engine.assumptions)
    print('evidence written: evaluations=%s distinct_nontrivial=%s wall=%.1fs'
          % (cov.get('evaluations'), cov.get('distinct_nontrivial'), wall), flush=True)
    if n_viol:
        return 1
    if herr and (len(herr) > max(2, len(pairs) // 20) or len(pairs) - len(herr) < 2):
        print('HARNESS-ERROR: %d of %d cases could not be judged; first: %s'
              % (len(herr), len(pairs), str(herr[0][1].get('detail'))[:1500]))
        return 2
    return 0


def replay(engine, path):
    driver.setup_pyc_prefix()
    try:
        with open(path) as f:
            body = json.load(f)
        case = body['case']
        r = engine.execute(case)
        print('replay verdict=%s sig=%s' % (r['verdict'], r.get('sig')))
        print('detail: %s' % json.dumps(r.get('detail'))[:3000])
        if r['verdict'] == 'violation':
            known = driver.load_known()
            kf = engine.known_match(case, r, known)
            if kf is not None:
                print('KNOWN-FINDING: property=%s %s (%s)' % (engine.pid, kf['what'], kf['id']))
                return 0
            print('VIOLATION property=%s replay=%s' % (engine.pid, path))
            return 1
        if r['verdict'] == 'harness_error':
            return 2
        return 0
    finally:
        driver.cleanup_pyc_prefix()
