"""
Probe execution and canonical (address-, pid-, path- and time-free) results.
Runs inside the subject.
"""
import hashlib
import os


def _h(s):
    if s is None:
        return None
    return hashlib.sha1(s.encode('utf-8', 'replace')).hexdigest()[:10]


class Canon:
    def __init__(self, root, repo='/repo', outer=None):
        self.root = os.path.realpath(root) if root else None
        self.outer = os.path.realpath(outer) if outer else None
        self.repo = repo

    def path(self, p):
        if p is None:
            return None
        p = str(p)
        if self.root and (p == self.root or p.startswith(self.root + os.sep)):
            return '<w>' + p[len(self.root):]
        if self.outer and (p == self.outer or p.startswith(self.outer + os.sep)):
            return '<r>' + p[len(self.outer):]
        if p.startswith(self.repo + os.sep):
            return '<repo>' + p[len(self.repo):]
        return p

    def text(self, s):
        # absolute scratch paths can appear inside descriptions / messages
        if s is None or not self.root:
            return s
        s = s.replace(self.root, '<w>')
        if self.outer:
            s = s.replace(self.outer, '<r>')
        return s

    def name(self, n, light=False):
        r = [n.name, n.type, self.path(n.module_path), n.line, n.column]
        if not light:
            r.append(n.full_name)
            r.append(self.text(n.description))
            r.append(_h(n.docstring(raw=True)))
        return r

    def completion(self, c):
        return [c.name, c.complete, c.type]

    def signature(self, s):
        return [self.text(s.to_string()), s.index, list(s.bracket_start),
                [[p.name, str(p.kind)] for p in s.params]]

    def syntax_error(self, e):
        return [e.line, e.column, e.until_line, e.until_column, e.get_message()]


# what order means per method: 'ordered' results are compared as lists by the
# C16 engine; every engine that is not about order compares sorted multisets.
SET_LIKE = {'goto'}


def run_probe(script, probe, canon):
    """probe = {'m': method, 'l': line, 'c': col, 'kw': {...}}.
    Returns canonical JSON-able result or ['EXC', typename]."""
    m = probe['m']
    kw = dict(probe.get('kw') or {})
    line, col = probe.get('l'), probe.get('c')
    try:
        if m == 'complete':
            res = script.complete(line, col, **kw)
            return [canon.completion(c) for c in res]
        if m == 'complete_full':
            res = script.complete(line, col, **kw)
            return [canon.completion(c) + [_h(c.docstring(raw=True)), c.full_name] for c in res]
        if m == 'infer':
            return [canon.name(n) for n in script.infer(line, col, **kw)]
        if m == 'goto':
            return [canon.name(n) for n in script.goto(line, col, **kw)]
        if m == 'help':
            return [canon.name(n) for n in script.help(line, col)]
        if m == 'get_signatures':
            return [canon.signature(s) for s in script.get_signatures(line, col)]
        if m == 'get_references':
            return [canon.name(n, light=True) for n in script.get_references(line, col, **kw)]
        if m == 'get_names':
            return [canon.name(n, light=probe.get('light', False)) for n in script.get_names(**kw)]
        if m == 'get_context':
            return [canon.name(script.get_context(line, col), light=True)]
        if m == 'search':
            return [canon.name(n, light=True) for n in script.search(probe['q'], **kw)]
        if m == 'complete_search':
            return [canon.completion(c) for c in script.complete_search(probe['q'], **kw)]
        if m == 'get_syntax_errors':
            return [canon.syntax_error(e) for e in script.get_syntax_errors()]
        if m == 'rename_diff':
            r = script.rename(line, col, new_name=probe['new'])
            return [canon.text(r.get_diff())]
        raise ValueError('unknown probe method %r' % m)
    except BaseException as e:   # noqa: B902 - KeyboardInterrupt etc. must be visible too
        if isinstance(e, (SystemExit, MemoryError)):
            raise
        return ['EXC', type(e).__name__]


def sort_result(res):
    """order-insensitive form of a probe result"""
    if isinstance(res, list) and res and res[0] == 'EXC':
        return res
    try:
        return sorted(res, key=lambda x: repr(x))
    except Exception:
        return res


def is_exc(res, name=None):
    if isinstance(res, list) and len(res) == 2 and res[0] == 'EXC':
        return name is None or res[1] == name
    return False


def builtin_representative_differs(probe, a, b):
    """listed finding C16-builtin-instance-representative: the value set holds two
    representations of one builtin instance (a compiled object produced by an
    operation, and an ExactValue standing for a literal); the API removes
    duplicates that are equal "in an API sense" and keeps whichever the set
    iteration yields first.  Recognised narrowly:
      Names (infer/goto/help): same entries in everything but docstring hash,
        and every differing entry is a builtin instance without a module path;
      completions: same (name, complete) lists, differing entries differ only in
        type and are dunder or builtin-number attribute names of an instance."""
    try:
        if is_exc(a) or is_exc(b) or len(a) != len(b):
            return False
        if probe['m'] in ('infer', 'goto', 'help'):
            if not all(len(x) == 8 for x in a + b):
                return False
            sa, sb = sorted(a, key=lambda x: x[:5]), sorted(b, key=lambda x: x[:5])
            for x, y in zip(sa, sb):
                if x[:5] != y[:5]:
                    return False
                if x[5:] != y[5:]:
                    # the survivors may differ in full_name / description / docstring only if they are
                    # path-less names of builtin objects (e.g. int.real vs float.real of a value set
                    # holding an int and a float: equal "in an API sense", one of them is kept)
                    if not (x[2] is None and str(x[5]).startswith('builtins.') and str(y[5]).startswith('builtins.')):
                        return False
            return True
        if probe['m'] == 'complete':
            for x, y in zip(a, b):
                if x[:2] != y[:2]:
                    return False
                if x[2] != y[2] and not ({x[2], y[2]} <= {'instance', 'function', 'property'}):
                    return False
            return True
        return False
    except Exception:
        return False


