"""
Driver side: derives every run from one integer, executes subjects in fresh
interpreters, pools cases over the cores, minimises failing cases, writes
replay files and evidence.
"""
import concurrent.futures as cf
import hashlib
import json
import multiprocessing
import os
import random
import shutil
import signal
import subprocess
import sys
import threading
import time
import traceback

VERIF = os.path.dirname(os.path.dirname(os.path.abspath(__file__)))
REPO = os.environ.get('VERIF_REPO', '/repo')
PY = os.environ.get('VERIF_PY', '/venv/bin/python')
SCRATCH_BASE = os.environ.get('VERIF_SCRATCH', '/dev/shm' if os.path.isdir('/dev/shm') else '/tmp')
SUBJECT = os.path.join(VERIF, 'simkit', 'subject.py')
_SETARCH = None
_counter = [0]
PYC_PREFIX = [None]


def setarch_prefix():
    global _SETARCH
    if _SETARCH is None:
        _SETARCH = []
        try:
            arch = os.uname().machine
            r = subprocess.run(['setarch', arch, '-R', 'true'], capture_output=True, timeout=10)
            if r.returncode == 0:
                _SETARCH = ['setarch', arch, '-R']
        except Exception:
            _SETARCH = []
    return _SETARCH


def derive_seed(*parts):
    h = hashlib.sha256(repr(parts).encode()).digest()
    return int.from_bytes(h[:8], 'big')


def rng_for(*parts):
    return random.Random(derive_seed(*parts))


_ctx = threading.local()
_dup_roots = [0]


def begin_case(case, pad=''):
    """scratch directory names become a pure function of the case (and of the
    order in which the engine asks for them): the absolute path of the world is
    visible to the subject (string hashes, allocation sizes), so replay needs
    the same path.  pad: extra characters in the name (an explored dimension
    for C16)."""
    body = json.dumps({k: v for k, v in case.items() if not k.startswith('_')}, sort_keys=True, default=str)
    _ctx.digest = hashlib.sha1(body.encode()).hexdigest()[:14]
    _ctx.n = 0
    _ctx.pad = pad


def set_pad(pad):
    _ctx.pad = pad


def new_root(tag='r'):
    digest = getattr(_ctx, 'digest', None)
    if digest is None:
        _counter[0] += 1
        name = 'jv-%d-%s-%d' % (os.getpid(), tag, _counter[0])
    else:
        _ctx.n += 1
        name = 'jv-%s-%s%d%s' % (digest, tag, _ctx.n, getattr(_ctx, 'pad', ''))
    root = os.path.join(SCRATCH_BASE, name)
    try:
        os.mkdir(root)
    except FileExistsError:
        # the same case is being executed elsewhere right now: stay correct, lose exact replay
        _dup_roots[0] += 1
        _counter[0] += 1
        root = '%s-dup%d-%d' % (root, os.getpid(), _counter[0])
        os.makedirs(root)
    return root


def rm_root(root):
    shutil.rmtree(root, ignore_errors=True)


def subject_env(hashseed):
    env = {
        'PATH': '/usr/local/bin:/usr/bin:/bin',
        'PYTHONPATH': REPO,
        'PYTHONHASHSEED': str(hashseed),
        'LANG': 'C.UTF-8',
        'LC_ALL': 'C.UTF-8',
        'HOME': '/nonexistent',
        'JV_GUARD': '1',
    }
    if PYC_PREFIX[0]:
        env['PYTHONPYCACHEPREFIX'] = PYC_PREFIX[0]
    else:
        env['PYTHONDONTWRITEBYTECODE'] = '1'
    return env


class SubjectResult:
    __slots__ = ('events', 'end', 'rc', 'timed_out', 'stderr', 'wall')

    def __init__(self):
        self.events, self.end, self.rc, self.timed_out, self.stderr, self.wall = [], None, None, False, '', 0.0

    @property
    def complete(self):
        return self.end is not None and self.rc == 0 and not self.timed_out


def run_subject(spec, root, hashseed=0, timeout=120, seg='0', aslr_off=True):
    """execute spec (dict) in a fresh interpreter on scratch root"""
    spec = dict(spec)
    spec['root'] = root
    spec.setdefault('watchdog_s', max(10, timeout - 10))
    sp = os.path.join(root, 'spec-%s.json' % seg)
    op = os.path.join(root, 'out-%s.jsonl' % seg)
    with open(sp, 'w') as f:
        json.dump(spec, f)
    if os.path.exists(op):
        os.remove(op)
    cmd = (setarch_prefix() if aslr_off else []) + [PY, '-X', 'faulthandler', SUBJECT, sp, op]
    res = SubjectResult()
    t0 = time.time()
    p = subprocess.Popen(cmd, env=subject_env(hashseed), stdout=subprocess.PIPE, stderr=subprocess.PIPE,
                         stdin=subprocess.DEVNULL, start_new_session=True, cwd=root)
    try:
        out, err = p.communicate(timeout=timeout)
    except subprocess.TimeoutExpired:
        res.timed_out = True
        try:
            os.killpg(p.pid, signal.SIGKILL)
        except ProcessLookupError:
            pass
        out, err = p.communicate()
    try:
        os.killpg(p.pid, signal.SIGKILL)
    except (ProcessLookupError, PermissionError):
        pass
    res.wall = time.time() - t0
    res.rc = p.returncode
    res.stderr = (err or b'').decode('utf-8', 'replace')[-3000:]
    if not res.timed_out and res.rc not in (0, None) and 'Timeout (' in (err or b'').decode('utf-8', 'replace'):
        # the subject's own watchdog (faulthandler.dump_traceback_later) fired: the subject hung
        res.timed_out = True
    if os.path.exists(op):
        with open(op) as f:
            for line in f:
                line = line.strip()
                if not line:
                    continue
                try:
                    ev = json.loads(line)
                except ValueError:
                    continue
                if ev.get('i') == 'end':
                    res.end = ev
                else:
                    res.events.append(ev)
    return res


class InteractiveSubject:
    """a long-lived subject fed one op at a time (for histories whose next op depends on
    the result of the previous one).  Still a pure function of the ops sent: the subject
    draws no random numbers and reads no real clock."""

    def __init__(self, spec, root, hashseed=0, seg='i', aslr_off=True):
        import select
        self._select = select
        spec = dict(spec, interactive=True, root=root)
        spec.setdefault('ops', [])
        spec.setdefault('watchdog_s', 600)
        sp = os.path.join(root, 'spec-%s.json' % seg)
        self.out_path = os.path.join(root, 'out-%s.jsonl' % seg)
        with open(sp, 'w') as f:
            json.dump(spec, f)
        if os.path.exists(self.out_path):
            os.remove(self.out_path)
        cmd = (setarch_prefix() if aslr_off else []) + [PY, '-X', 'faulthandler', SUBJECT, sp, self.out_path]
        self.p = subprocess.Popen(cmd, env=subject_env(hashseed), stdin=subprocess.PIPE, stdout=subprocess.PIPE,
                                  stderr=subprocess.PIPE, start_new_session=True, cwd=root)
        self.buf = b''
        self.failed = None

    def step(self, op, timeout=90):
        if self.failed:
            return None
        try:
            self.p.stdin.write((json.dumps(op) + '\n').encode())
            self.p.stdin.flush()
        except (BrokenPipeError, OSError):
            self.failed = 'subject gone'
            return None
        deadline = time.time() + timeout
        while True:
            nl = self.buf.find(b'\n')
            if nl >= 0:
                line, self.buf = self.buf[:nl], self.buf[nl + 1:]
                if line.startswith(b'EV '):
                    return json.loads(line[3:])
                continue
            left = deadline - time.time()
            if left <= 0:
                self.failed = 'timeout'
                return None
            r, _, _ = self._select.select([self.p.stdout], [], [], left)
            if not r:
                self.failed = 'timeout'
                return None
            chunk = os.read(self.p.stdout.fileno(), 1 << 16)
            if not chunk:
                self.failed = 'subject exited'
                return None
            self.buf += chunk

    def close(self):
        err = b''
        try:
            if self.p.poll() is None and not self.failed:
                try:
                    self.p.stdin.write(b'{"op": "quit"}\n')
                    self.p.stdin.flush()
                    self.p.stdin.close()
                    self.p.wait(timeout=20)
                except Exception:
                    pass
        finally:
            try:
                os.killpg(self.p.pid, signal.SIGKILL)
            except (ProcessLookupError, PermissionError):
                pass
            try:
                err = self.p.stderr.read() or b''
            except Exception:
                pass
            try:
                self.p.wait(timeout=10)
            except Exception:
                pass
        return err.decode('utf-8', 'replace')[-2000:]


def run_history(case, root, inv=(), extra=None, timeout=110):
    """execute case['ops'] on scratch root; host_restart ops split the history
    into successive fresh interpreters sharing root (world + pickle cache).
    returns (events, failed SubjectResult or None)"""
    ops = case['ops']
    cuts = [i for i, o in enumerate(ops) if o['op'] == 'host_restart'] + [len(ops)]
    events = []
    start = 0
    seg = 0
    for cut in cuts:
        if cut > start:
            spec = {'init': case.get('init') or [], 'ops': ops, 'start': start, 'end': cut, 'inv': list(inv),
                    'faults': case.get('faults') or [], 'gc_auto': case.get('gc_auto', False)}
            if extra:
                spec.update(extra)
            r = run_subject(spec, root, hashseed=case.get('hashseed', 0), timeout=timeout, seg=str(seg))
            if not r.complete:
                return events + r.events, r
            events += r.events
        if cut < len(ops):
            events.append({'i': cut, 'op': 'host_restart', 'res': 'ok'})
        start = cut + 1
        seg += 1
    return events, None


def events_digest(events):
    h = hashlib.sha256()
    for ev in events:
        ev = {k: v for k, v in ev.items() if k not in ('wall',)}
        h.update(json.dumps(ev, sort_keys=True).encode())
    return h.hexdigest()[:16]


# ---------------------------------------------------------------------------
# pool
# ---------------------------------------------------------------------------

def _worker(args):
    engine_name, case = args
    from simkit import engines
    eng = engines.get(engine_name)
    t0 = time.time()
    try:
        r = eng.execute(case)
    except Exception:
        r = {'verdict': 'harness_error', 'detail': traceback.format_exc()[-2000:]}
    r.setdefault('stats', {})
    r['wall'] = time.time() - t0
    r['case_id'] = case.get('id')
    return r


def run_cases(engine_name, cases, workers=None, budget_s=None, on_result=None):
    """run cases on a fork pool; stops submitting when budget_s is exhausted.
    returns list of (case, result)"""
    workers = workers or int(os.environ.get('VERIF_WORKERS', '0')) or min(16, os.cpu_count() or 4)
    out = []
    t0 = time.time()
    ctx = multiprocessing.get_context('fork')
    it = iter(cases)
    pending = {}
    exhausted = False
    with cf.ProcessPoolExecutor(max_workers=workers, mp_context=ctx) as ex:
        while True:
            while not exhausted and len(pending) < workers * 2:
                if budget_s is not None and time.time() - t0 > budget_s:
                    exhausted = True
                    break
                try:
                    c = next(it)
                except StopIteration:
                    exhausted = True
                    break
                try:
                    fut = ex.submit(_worker, (engine_name, c))
                except Exception as e:      # broken pool (a worker was killed): stop submitting
                    out.append((c, {'verdict': 'harness_error', 'detail': 'submit failed: %r' % (e,), 'stats': {}, 'wall': 0}))
                    exhausted = True
                    break
                pending[fut] = c
            if not pending:
                break
            done, _ = cf.wait(list(pending), return_when=cf.FIRST_COMPLETED, timeout=600)
            if not done:
                # nothing finished in 10 minutes: harness trouble
                for fut, c in pending.items():
                    out.append((c, {'verdict': 'harness_error', 'detail': 'pool stall', 'stats': {}, 'wall': 600}))
                for pr in ex._processes.values():
                    try:
                        pr.kill()
                    except Exception:
                        pass
                break
            for fut in done:
                c = pending.pop(fut)
                try:
                    r = fut.result()
                except Exception as e:
                    r = {'verdict': 'harness_error', 'detail': 'worker died: %r' % (e,), 'stats': {}, 'wall': 0}
                out.append((c, r))
                if on_result:
                    on_result(c, r)
    return out


# ---------------------------------------------------------------------------
# minimisation (delta debugging over the op list of a case)
# ---------------------------------------------------------------------------

def ddmin_ops(case, ops_key, still_fails, budget=80, workers=8, fixup=None):
    """Shrink case[ops_key] (a list) while still_fails(candidate_case) is
    truthy.  Candidates of one round are evaluated in parallel threads (each
    evaluation is its own subject process).  fixup(case) may repair dangling
    references after ops were dropped (or return None to reject)."""
    used = [0]

    def mk(ops):
        c = json.loads(json.dumps(case))
        c[ops_key] = ops
        if fixup:
            c = fixup(c)
        return c

    def test_many(cands):
        res = []
        cands = [(ops, mk(ops)) for ops in cands]
        cands = [(ops, c) for ops, c in cands if c is not None]
        if not cands:
            return None
        with cf.ThreadPoolExecutor(max_workers=workers) as ex:
            futs = [ex.submit(still_fails, c) for _, c in cands]
            for (ops, c), f in zip(cands, futs):
                used[0] += 1
                try:
                    ok = f.result()
                except Exception:
                    ok = False
                res.append((ops, ok))
        for ops, ok in res:
            if ok:
                return ops
        return None

    ops = list(case[ops_key])
    n = 2
    while len(ops) >= 2 and used[0] < budget:
        chunk = max(1, len(ops) // n)
        cands = []
        for i in range(0, len(ops), chunk):
            cands.append(ops[:i] + ops[i + chunk:])
        cands = [c for c in cands if len(c) < len(ops)]
        got = test_many(cands[:max(1, min(len(cands), budget - used[0]))])
        if got is not None:
            ops = got
            n = max(n - 1, 2)
        else:
            if chunk == 1:
                break
            n = min(len(ops), n * 2)
    return mk(ops) or case, used[0]


# ---------------------------------------------------------------------------
# known findings
# ---------------------------------------------------------------------------

def load_known():
    p = os.path.join(VERIF, 'known_findings.json')
    if not os.path.exists(p):
        return {'findings': [], 'fixed': []}
    with open(p) as f:
        return json.load(f)


# ---------------------------------------------------------------------------
# evidence / replay
# ---------------------------------------------------------------------------

def write_replay(pid, case, result, tag=None):
    d = os.path.join(VERIF, 'out', 'replays')
    os.makedirs(d, exist_ok=True)
    body = {'property': pid, 'case': case,
            'expect': {'verdict': result.get('verdict'), 'sig': result.get('sig')},
            'detail': result.get('detail')}
    name = '%s-%s.json' % (pid, tag or hashlib.sha1(json.dumps(case, sort_keys=True).encode()).hexdigest()[:10])
    path = os.path.join(d, name)
    with open(path, 'w') as f:
        json.dump(body, f, indent=1, sort_keys=True)
    return path


def write_evidence(pid, tier, seed, level, coverage, wall, violations, assumptions):
    d = os.path.join(VERIF, 'evidence')
    if os.environ.get('VERIF_NO_EVIDENCE'):
        d = os.path.join(VERIF, 'out', 'evidence_scratch')
    os.makedirs(d, exist_ok=True)
    ev = {
        'property_id': pid, 'tier': tier, 'seed': int(seed), 'level': level,
        'coverage': coverage, 'assumptions': assumptions,
        'wall_s': round(wall, 2), 'violations': int(violations),
    }
    path = os.path.join(d, '%s.json' % pid)
    tmp = path + '.tmp'
    with open(tmp, 'w') as f:
        json.dump(ev, f, indent=1, sort_keys=True)
    os.replace(tmp, path)
    return path


def setup_pyc_prefix():
    """Byte-code of the code under test is rebuilt from /repo's current working tree
    at the start of every check invocation: hash-validated pycs (PEP 552,
    checked-hash) are written into /repo/jedi/**/__pycache__ (git-ignored), so an
    edit is picked up whatever its mtime, and every subject of this invocation -
    first or last - loads the same byte-code (the self-test found event logs
    differing between "compiled from source" and "loaded from pyc": the heap
    layout differs).  Subjects themselves never write byte-code."""
    PYC_PREFIX[0] = None
    try:
        subprocess.run([PY, '-m', 'compileall', '-q', '-j', '8', '--invalidation-mode', 'checked-hash',
                        os.path.join(REPO, 'jedi')],
                       stdout=subprocess.DEVNULL, stderr=subprocess.DEVNULL, timeout=300,
                       env={'PATH': '/usr/local/bin:/usr/bin:/bin'})
    except Exception:
        pass
    return None


def cleanup_pyc_prefix():
    if PYC_PREFIX[0]:
        shutil.rmtree(PYC_PREFIX[0], ignore_errors=True)
