"""
C12 - analysing sources with Script never executes them (stateful / two-process part).

Adversarial worlds: every Python file of the project writes a sentinel when it
is executed; file names are chosen adversarially; project options vary.  The
standing invariants are evaluated after EVERY op of a seeded session (queries,
refactorings, Project.search, helper crash + replacement, host restart on the
warm pickle cache, apply()):

  * no sentinel exists
  * host sys.path / cwd / os.environ equal their baseline; host sys.modules
    holds no module located in the world
  * helper sys.path / cwd equal their value at helper start (read through the
    pipe after the op), helper sys.modules holds no module located in the world
"""
import collections
import json

from simkit import base, driver, world

MT0 = 1_400_000_000 * 10**9
ADVERSARIAL = ['conftest', 'setup', 'sitecustomize', 'usercustomize', '__main__', 'gi', 'manage',
               'test_adv', '_json', 'math', 'antigravity', 'this',
               # names that machinery INSIDE the helper imports lazily while it looks a module up (meta-path
               # finders installed by site-packages such as setuptools' distutils shim; codec modules behind
               # a PEP 263 cookie): they must not resolve to project files
               'setuptools', 'pkg_resources', '_codecs_kr', '_multibytecodec', 'stringprep', 'quopri']
SENT = world.SENTINEL


def gen_case(seed, tier, i):
    rng = driver.rng_for(seed, 'C12', tier, 'case', i)
    files = {}
    sid = [0]

    def sent():
        sid[0] += 1
        return SENT % ('f%d' % sid[0])

    # the corner "'' on the host's sys.path AND the host's cwd is the project" (python -c / REPL started in the
    # checkout): Python itself then resolves every lazy import of the host program to project files, so the
    # corner is only entered with adversarial names that nothing in the host imports on its own
    combo = rng.random() < 0.12
    pool = [n for n in ADVERSARIAL if n in ('conftest', 'setup', 'usercustomize', '__main__', 'gi', 'manage',
                                            'test_adv')] if combo else ADVERSARIAL
    names = rng.sample(pool, rng.randint(3, 6))
    if 'gi' not in names and rng.random() < 0.6:
        names.append('gi')
    mods = []
    for n in names:
        shape = world.gen_shape(rng)
        src = world.gen_module_source(rng, n.replace('__', 'dunder_') if n.startswith('__') else n, 1, shape=shape)
        src = src.replace('\n', '\n' + sent(), 1)
        if n == 'gi' and rng.random() < 0.5:
            files['gi/__init__.py'] = src
            files['gi/repository.py'] = sent() + 'class Gtk:\n    win_gi = 1\n'
            mods.append('gi')
            mods.append('gi.repository')
        else:
            files[n + '.py'] = src
            mods.append(n)
    # ordinary modules and a package, all with side effects
    for n in world.TOP[:rng.randint(1, 2)]:
        src = world.gen_module_source(rng, n, 1)
        files[n + '.py'] = src.replace('\n', '\n' + sent(), 1)
        mods.append(n)
    if rng.random() < 0.6:
        files['pa/__init__.py'] = sent() + 'from . import sa\n'
        files['pa/sa.py'] = sent() + world.gen_module_source(rng, 'pa.sa', 1)
        files['pa/conftest.py'] = sent() + 'import pytest\n\n@pytest.fixture\ndef fx_pa():\n    return 1\n'
        mods += ['pa', 'pa.sa']
    cookie = None
    if rng.random() < 0.35:
        # a module whose source declares a legacy codec (decoding it makes Python look the codec up)
        cookie = rng.choice(['euc-kr', 'shift_jis', 'gbk', 'big5', 'idna', 'latin-1'])
        files['cookie_mod.py'] = '# -*- coding: %s -*-\n' % cookie + sent() + 'def cooked(c_arg):\n    return c_arg\n'
    if rng.random() < 0.5:
        files['evil.pth'] = 'import os; open(os.path.join(os.environ["JV_SENTINEL_DIR"], "pth"), "w").close()\n'
    if rng.random() < 0.4:
        files['bin/buildout_script'] = '#!/usr/bin/python\n' + sent() + 'import sys\nsys.path[0:0] = ["<<W>>/eggs"]\n'
        files['buildout.cfg'] = '[buildout]\n'
    if rng.random() < 0.4:
        files['pytest.ini'] = '[pytest]\n'
        files['test_adv2.py'] = sent() + 'def test_x(fx_pa):\n    fx_pa\n'
    init = [{'op': 'fs', 'kind': 'write', 'path': p, 'content': c, 'mt': MT0} for p, c in sorted(files.items())]
    with_zip = rng.random() < 0.3
    if with_zip:
        # an archive on the project's search path; one member declares latin-1 and contains a
        # non-UTF-8 byte: reading its source through the zip importer raises inside the helper
        init.append({'op': 'fs', 'kind': 'write_zip', 'path': 'vendor.zip', 'mt': MT0, 'members': {
            'okzip.py': {'text': 'def okf(a):\n    return a\n'},
            'badzip.py': {'text': '# -*- coding: latin-1 -*-\nNAME = "caf\u00e9"\ndef badf(b):\n    return b\n',
                          'encoding': 'latin-1'},
        }})

    popt = rng.choice(['default', 'sys_path', 'added', 'smart_off', 'insert'])
    project = {'path': '.'}
    if popt == 'sys_path':
        project['sys_path'] = ['.']
    elif popt == 'added':
        project['added_sys_path'] = ['.'] + (['pa'] if 'pa' in mods else [])
    elif popt == 'smart_off':
        project['smart_sys_path'] = False
    if with_zip:
        project['added_sys_path'] = list(project.get('added_sys_path') or []) + ['vendor.zip']
    tops = [m for m in mods if '.' not in m]

    def buffer():
        b = world.Buffer()
        if popt == 'insert' or rng.random() < 0.2:
            b.add('import sys')
            b.add('sys.path.insert(0, "<<W>>")')
        chosen = rng.sample(tops, min(len(tops), rng.randint(2, 4)))
        for m in chosen:
            b.add('import %s' % m)
        if rng.random() < 0.6:
            # imports that cannot be resolved are an everyday state of a buffer
            miss = rng.choice(['no_such_mod_%d' % rng.randint(1, 9), 'pa.no_sub', 'gi.nothing', 'conftest.deep'])
            b.add('import %s' % miss, [('infer', 'import ' + miss[:3], None)])
            b.add('from %s import thing' % miss.split('.')[0].replace('no_such', 'nosuch'),
                  [('goto', 'import th', {'follow_imports': True})])
        if 'setuptools' in names or 'pkg_resources' in names or rng.random() < 0.1:
            # not in the standard library any more: third-party finders of the environment answer for it
            b.add('import distutils', [('infer', 'import dist', None)])
            b.add('distutils.core', [('complete', 'distutils.', None)])
        if cookie:
            b.add('import cookie_mod')
            b.add('cookie_mod.cooked(1)', [('get_signatures', 'cooked(', None), ('complete', 'cookie_mod.', None)])
        if with_zip:
            b.add('import okzip')
            b.add('okzip.okf(1)', [('get_signatures', 'okf(', None)])
            b.add('import badzip', [('infer', 'import badz', None)])
            b.add('badzip.badf(1)', [('get_signatures', 'badf(', None), ('complete', 'badzip.', None)])
        if 'gi.repository' in mods:
            b.add('from gi.repository import Gtk', [('infer', 'import Gt', None), ('complete', 'import ', None)])
            b.add('Gtk.win', [('complete', 'Gtk.', None)])
        if 'pa' in mods and rng.random() < 0.7:
            b.add('from pa.sa import *')
            b.add('func(1)', [('get_signatures', 'func(', None)])
        for m in chosen:
            k = rng.random()
            if k < 0.3:
                b.add('%s.func(1)' % m, [('get_signatures', m + '.func(', None), ('complete', m + '.', None)])
            elif k < 0.5:
                b.add('%s.Klass().method' % m, [('complete', '().', None), ('infer', '().meth', None)])
            elif k < 0.7:
                b.add('%s.VALUE' % m, [('goto', '.VAL', {'follow_imports': True}), ('help', '.VAL', None)])
            else:
                b.add('%s.func' % m, [('get_references', '.fu', None)])
        if rng.random() < 0.5:
            # pytest support: fixtures are looked up in conftest.py files and in pytest's plug-ins
            b.add('def test_something(fx_pa, tmp_path, monkeypatch):')
            b.add('    fx_pa', [('infer', '    fx_p', None), ('goto', '    fx_p', None)])
            b.add('    tmp_path.x', [('complete', 'tmp_path.', None)])
            b.add('    monkeypatch', [('help', 'monkeyp', None)])
            b.add('')
            b.add('def test_other(fx_', [('complete', '(fx_', None)])
            b.add('    pass')
        b.add('import ', [('complete', 'import ', None)])
        return b

    ops = []
    env = rng.choice(['default', 'default', 'default', 'explicit', 'interpreter'])
    if combo and rng.random() < 0.6:
        env = 'interpreter'

    nsess = rng.randint(2, 4) if tier == 'quick' else rng.randint(2, 7)
    for j in range(nsess):
        b = buffer()
        sidj = 's%d' % j
        pathed = rng.random() < 0.6
        path = rng.choice(['buf.py', 'pa/test_buf.py', 'test_buf.py']) if pathed else None
        if path and path.startswith('pa/') and 'pa' not in mods:
            path = 'buf.py'
        ops.append({'op': 'script', 'sid': sidj, 'code': b.text, 'path': path, 'project': project, 'env': env})
        probes = list(b.probes)
        rng.shuffle(probes)
        for p in probes[:rng.randint(2, 6)]:
            ops.append({'op': 'probe', 'sid': sidj, 'p': p})
        r = rng.random()
        if r < 0.25:
            # a refactoring over project files (rename a function used across files), maybe applied
            line = next((k for k, l in enumerate(b.lines, 1) if '.func' in l), None)
            if line:
                col = b.lines[line - 1].index('.func') + 2
                ops.append({'op': 'refactor', 'sid': sidj, 'rid': 'r', 'kind': 'rename',
                            'args': {'l': line, 'c': col, 'new': 'renamed_%d' % j}})
                if rng.random() < 0.5:
                    ops.append({'op': 'refactor_apply', 'sid': sidj, 'rid': 'r'})
        elif r < 0.4:
            ops.append({'op': 'project_search', 'q': rng.choice(['func', 'Klass', 'fx_', 'Gtk']), 'project': project,
                        'all_scopes': rng.random() < 0.5})
        elif r < 0.5:
            ops.append({'op': 'probe', 'sid': sidj, 'p': {'m': 'search', 'q': rng.choice(['func', 'conftest', 'gi'])}})
        ops.append({'op': 'drop', 'sid': sidj})
        r = rng.random()
        if r < 0.2:
            ops.append({'op': 'kill_helper'})
        elif r < 0.35:
            ops.append({'op': 'host_restart'})
        elif r < 0.45:
            ops.append({'op': 'gc'})
    cwd_in = True if combo else rng.random() < 0.6
    # second kind of corner (same safe names): the host's sys.path holds the absolute project directory
    abs_entry = combo and rng.random() < 0.5
    if abs_entry:
        cwd_in = rng.random() < 0.5
        # never with InterpreterEnvironment: there the host's sys.path IS the environment's own path, so a
        # host that has put the project on its path has opted in (Python itself would import from there)
        env = rng.choice(['default', 'default', 'explicit'])
        for o in ops:
            if o.get('op') == 'script':
                o['env'] = env
    # where the project lives relative to the environment's own sys.path: elsewhere, nested
    # below an entry (monorepo checkout under a PYTHONPATH directory), or a sibling whose name
    # merely starts with an entry
    place = rng.choice(['elsewhere', 'elsewhere', 'nested', 'sibling'])
    faults = []
    if rng.random() < 0.3:
        faults.append({'fn': 'get_module_info', 'occ': rng.randint(1, 6), 'phase': 'reply_exception', 'exc': 'RuntimeError'})
    if rng.random() < 0.2:
        faults.append({'fn': 'load_module', 'occ': 1, 'phase': rng.choice(['kill_after_send', 'reply_exception'])})
    return {'id': 'c12-%d' % i, 'init': init, 'ops': ops, 'faults': faults, 'hashseed': rng.randint(0, 2),
            'popt': popt, 'names': names, 'cwd_in_project': cwd_in, 'env': env,
            # '' on the host's sys.path (interactive session / python -c / embedding host) - but never
            # together with cwd inside the project: then ANY lazy stdlib import of the host program
            # resolves to project files (math.py ...), which is Python's doing, not jedi's
            'host_path_empty_entry': (combo and not abs_entry) or ((not combo) and (not cwd_in) and rng.random() < 0.7),
            'host_path_project_entry': abs_entry, 'place': place}


class C12(base.Engine):
    pid = 'C12'
    level = 'exploration'
    technique = 'deterministic simulation: adversarial side-effecting project worlds; sentinel + host/helper state-conservation invariants after every op of seeded sessions with helper crashes, injected helper exceptions and host restarts'
    budgets = (60, 1200)
    assumptions = [
        'only the stateful / two-process content of the statement is decided: sentinels, host and helper sys.path / cwd / environ / sys.modules conservation along seeded sessions',
        'host sys.modules may grow by jedi/stdlib lazy imports; only modules located in the analysed world count',
        'Interpreter, django and pytest plug-in paths that need those packages installed are not driven',
        'load_unsafe_extensions stays at its default False',
    ]
    components = {
        'real': ['jedi host side', 'helper process', 'kernel file system'],
        'simulated': ['helper death / injected helper exceptions', 'host restarts', 'clock'],
        'stubbed': [],
    }

    def execute(self, case):
        driver.begin_case(case)
        root = driver.new_root('c12')
        try:
            extra = {'cwd': 'w'} if case.get('cwd_in_project') else {}
            if case.get('place') == 'nested':
                extra['extra_pythonpath'] = ['.']            # <root> is on the environment's path, project is <root>/w
            elif case.get('place') == 'sibling':
                extra['world_dir'] = 'w-proj'                # <root>/w is on the path, project is <root>/w-proj
                extra['extra_pythonpath'] = ['w']
            if case.get('host_path_empty_entry'):
                extra['host_path_empty_entry'] = True
            if case.get('host_path_project_entry'):
                extra['host_path_project_entry'] = True
            events, bad = driver.run_history(case, root, inv=['sentinel', 'host', 'helper'], extra=extra)
        finally:
            driver.rm_root(root)
        if bad is not None:
            return {'verdict': 'harness_error', 'detail': {'rc': bad.rc, 'to': bad.timed_out, 'stderr': bad.stderr[-1500:]}}
        stats = collections.Counter()
        problems = []
        for i, (op, ev) in enumerate(zip(case['ops'], events)):
            stats['ops'] += 1
            stats['op:' + op['op']] += 1
            stats['helper_requests'] += max(0, ev.get('reqs', [1, 0])[1] - ev.get('reqs', [1, 0])[0] + 1)
            for f in ev.get('fired') or []:
                stats['fired:' + f['phase']] += 1
            if op['op'] == 'refactor_apply' and ev.get('res') == 'applied':
                stats['applied'] += 1
            if ev.get('inv_bad'):
                o = {k: v for k, v in op.items() if k not in ('code',)}
                problems.append(('%s' % ev['inv_bad'][0][0], {'op': i, 'opdesc': o, 'bad': ev['inv_bad']}))
        st = dict(stats)
        st['digest'] = driver.events_digest(events)
        st['popt'] = case['popt']
        st['env'] = case.get('env')
        st['place'] = case.get('place')
        st['names'] = case['names']
        if problems:
            kinds = sorted({b[0] for _, d in problems for b in d['bad']})
            return {'verdict': 'violation', 'sig': problems[0][0],
                    'detail': {'problems': [[s, d] for s, d in problems[:3]], 'n': len(problems),
                               'other_kinds': [k for k in kinds if k != 'host_path']}, 'stats': st}
        return {'verdict': 'ok', 'stats': st}

    def run(self, tier, seed, budget_s):
        n = 600 if tier == 'quick' else 30000
        return driver.run_cases('C12', (gen_case(seed, tier, i) for i in range(n)), budget_s=budget_s)

    def shrink(self, case, result):
        sig = result.get('sig')

        def fails(c):
            r = self.execute(c)
            return r['verdict'] == 'violation' and r.get('sig') == sig
        c = self.strip(case)
        try:
            last = result['detail']['problems'][0][1]['op']
            cand = dict(c, ops=c['ops'][:last + 1])
            if fails(cand):
                c = cand
        except Exception:
            pass
        from simkit.props.c14 import _fixup_ops
        mc, _ = driver.ddmin_ops(c, 'ops', fails, budget=40, fixup=_fixup_ops)
        r = self.execute(mc)
        if r['verdict'] != 'violation':
            return c, self.execute(c)
        return mc, r

    def known_match(self, case, result, known):
        """listed finding C12-interpreter-env-third-party-finder: under InterpreterEnvironment the lookup of a
        module runs the finders that the host's own packages put on sys.meta_path inside the host; what THEIR
        code does to the host (setuptools' distutils shim imports setuptools, which appends its vendor
        directory to sys.path) shows as a changed host sys.path.  Matched only if every anomaly of the case is
        a host sys.path that GAINED entries outside the scratch root and lost none, the session runs on
        InterpreterEnvironment and the Script of the op imports `distutils`."""
        listed = [k for k in known['findings'] if k.get('id') == 'C12-interpreter-env-third-party-finder']
        probs = (result.get('detail') or {}).get('problems') or []
        if not listed or not probs or case.get('env') != 'interpreter':
            return None
        codes = {}
        for op in case['ops']:
            if op['op'] == 'script':
                codes[op['sid']] = op.get('code') or ''
        # anomalies are sticky (the entry stays): every op after the first one reports it again, so the
        # whole event list is judged, not just the first three problems kept in the detail
        if (result.get('detail') or {}).get('n', 0) > 0:
            first = probs[0][1]
            sid = (first.get('opdesc') or {}).get('sid')
            if 'import distutils' not in codes.get(sid, ''):
                return None
        for sig, d in probs:
            for b in d.get('bad') or []:
                if b[0] != 'host_path' or not isinstance(b[1], dict):
                    return None
                if b[1].get('removed') or not b[1].get('added'):
                    return None
                if any(str(x).startswith('<root>') or x == '' or not str(x).startswith('/') for x in b[1]['added']):
                    return None
        if (result.get('detail') or {}).get('other_kinds'):
            return None
        return listed[0]

    def coverage(self, pairs, tier):
        ev = 0
        tot = collections.Counter()
        nontrivial = set()
        popts = collections.Counter()
        names = collections.Counter()
        samples = []
        for c, r in pairs:
            if r['verdict'] == 'harness_error':
                continue
            ev += 1
            st = r.get('stats', {})
            for k, v in st.items():
                if isinstance(v, int) and not isinstance(v, bool):
                    tot[k] += v
            popts[st.get('popt')] += 1
            tot['env:%s' % st.get('env')] += 1
            tot['place:%s' % st.get('place')] += 1
            for n in st.get('names', []):
                names[n] += 1
            if st.get('helper_requests', 0) > 0:
                nontrivial.add(st['digest'])
            if len(samples) < 2:
                samples.append({'id': c['id'], 'files': [o['path'] for o in c['init']], 'project_option': c['popt'],
                                'ops': [{k: v for k, v in o.items() if k != 'code'} for o in c['ops']][:25],
                                'faults': c['faults']})
        return {
            'evaluations': ev,
            'distinct_nontrivial': len(nontrivial),
            'rule': 'one evaluation = one adversarial world + one seeded session, invariants checked after every op; '
                    'non-trivial = the session made at least one helper request (so both processes were exposed to '
                    'the world); distinct = distinct event-log digests',
            'samples': samples,
            'ops_checked': tot['ops'],
            'helper_requests': tot['helper_requests'],
            'ops_by_kind': {k[3:]: v for k, v in tot.items() if k.startswith('op:')},
            'faults_fired_by_kind': {k[6:]: v for k, v in tot.items() if k.startswith('fired:')},
            'refactorings_applied': tot['applied'],
            'project_options': dict(popts),
            'environments': {k[4:]: v for k, v in tot.items() if k.startswith('env:')},
            'project_placement': {k[6:]: v for k, v in tot.items() if k.startswith('place:')},
            'adversarial_names': dict(names),
        }


ENGINE = C12()
