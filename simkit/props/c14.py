"""
C14 - a crash of the helper process is contained and recovered from.

A *scenario* is a scripted session (Scripts created, probed, dropped; GC runs;
clock advances; censuses).  It is first executed undisturbed (the reference,
which also numbers the helper requests), then with a fault plan: death of the
helper at request k in phase p, idle kills at op boundaries, sequences of up to
three deaths.  The judge is an executable model of "which Script is bound to
which helper generation and which deaths has the host observed".
"""
import collections
import hashlib
import json
import os

from simkit import base, driver, world
from simkit.canon import sort_result, is_exc, builtin_representative_differs

DEATH_PHASES = ['kill_before_send', 'kill_after_send', 'truncate_reply', 'die_by_exception', 'flood_then_die']
TRUNC_VARIANTS = [{'n': 1}, {'frac': 0.5}, {'n': 1, 'from_end': True}]
MT0 = 1_400_000_000 * 10**9


def phase_variants():
    out = [{'phase': 'kill_before_send'}, {'phase': 'kill_after_send'}]
    for v in TRUNC_VARIANTS:
        d = {'phase': 'truncate_reply'}
        d.update(v)
        out.append(d)
    out.append({'phase': 'die_by_exception', 'exc': 'KeyboardInterrupt'})
    out.append({'phase': 'die_by_exception', 'exc': 'SystemExit'})
    out.append({'phase': 'flood_then_die', 'lines': 1500})
    # what a natively crashing helper leaves on stderr is not necessarily text: a few lines of raw
    # bytes that are not valid UTF-8 (output of a C library in a legacy locale, a corrupted buffer)
    out.append({'phase': 'flood_then_die', 'lines': 3, 'binary': True})
    return out


BUILTIN_PROBES = [
    ('"abc".upper', [('complete', '"abc".', None)]),
    ('"abc".upper()', [('infer', '"abc".upp', None)]),
    ('int("3")', [('get_signatures', 'int(', None)]),
    ('len("abc")', [('get_signatures', 'len(', None)]),
    ('(1.5).real', [('complete', '(1.5).', None)]),
    ('b"x".decode', [('complete', 'b"x".de', None)]),
    ('str', [('help', 'st', None)]),
    ('import sys', [('goto', 'import sy', None)]),
    ('import json', [('infer', 'import js', None)]),
    ('import ', [('complete', 'import ', None)]),
    ('1.5', [('infer', '1.', None)]),
    ('le', [('complete', 'le', None)]),
    ('abs(-1)', [('infer', 'abs(-1', None)]),
    ('"x".join(["a"])', [('infer', 'joi', None)]),
]


def gen_scenario(rng, sid):
    w = world.gen_world(rng, n_top=rng.randint(2, 3))
    special = None
    if rng.random() < 0.3:
        # a project module that carries one of the names jedi treats specially (process-wide completion
        # cache keyed by module NAME): whatever a failed query leaves there is seen by every later Script
        special = rng.choice(['pandas', 'numpy', 'matplotlib', 'tensorflow'])
        w.set_module(rng, special, 1)
    mods = [m for m in w.mods if m != special]
    init = [{'op': 'fs', 'kind': 'write', 'path': p, 'content': c, 'mt': MT0} for p, c in sorted(w.files.items())]
    nscripts = rng.randint(3, 6)
    env = rng.choice(['default', 'default', 'explicit', 'mixed'])
    mode = rng.choice(['sequential', 'sequential', 'overlap'])
    # (decided below) if every Script shows the same file, they cannot overlap: one live Script per path
    scripts = []
    # an editor that keeps asking about ONE unchanged file: every Script gets the same text, path
    # and probes (whatever is cached per path / text / position survives from Script to Script)
    same = rng.random() < 0.35
    if same:
        mode = 'sequential'     # one live Script per path
    b_same = None
    for j in range(nscripts):
        if same and b_same is not None:
            b = b_same
            scripts.append({'sid': 's%d' % j, 'code': b.text, 'probes': list(b.probes), 'path': 'same.py'})
            continue
        b = world.gen_probe_buffer(rng, mods, max_probes=rng.randint(1, 4))
        for text, probes in rng.sample(BUILTIN_PROBES, rng.randint(1, 2)):
            b.add(text, probes)
        if special:
            b.add('import %s' % special)
            b.add('%s.Klass' % special, [('complete', special + '.', None), ('complete', special + '.Kl', None)])
        if same:
            b.add('str("x")', [('get_signatures', 'str(', None)])
            b.add('len("x")', [('get_signatures', 'len(', None)])
            b_same = b
        # Scripts that are alive at the same time and are queried again later must not share a path
        # (nor both be path-less): jedi keeps ONE tree per path, which the next Script on that path
        # re-parses in place - a precondition of use, not something to test here
        pathed = True if mode == 'overlap' else rng.random() < 0.5
        rng.shuffle(b.probes)
        scripts.append({'sid': 's%d' % j, 'code': b.text, 'probes': list(b.probes),
                        'path': 'same.py' if same else ('buf%d.py' % j) if pathed else None})
    ops = []

    envs = {}
    # a new Project per Script (what an editor does that builds Script(code, path=...) without a
    # project): the environment then comes from the 10-minute default-environment cache
    fresh = rng.random() < 0.5

    def mk_script(s):
        # 'mixed': two environments (two helper processes) alive side by side
        e = env if env != 'mixed' else envs.setdefault(s['sid'], rng.choice(['default', 'explicit']))
        return {'op': 'script', 'sid': s['sid'], 'code': s['code'], 'path': s['path'],
                'env': e, 'project': {'path': '.', 'fresh': True} if fresh else {'path': '.'}}
    if mode == 'sequential':
        for s in scripts:
            ops.append(mk_script(s))
            for p in s['probes']:
                ops.append({'op': 'probe', 'sid': s['sid'], 'p': p})
            if rng.random() < 0.8:
                ops.append({'op': 'drop', 'sid': s['sid']})
            if rng.random() < 0.4:
                ops.append({'op': 'gc'})
            if rng.random() < 0.25:
                ops.append({'op': 'census'})
            if rng.random() < (0.35 if fresh else 0.1):
                ops.append({'op': 'advance', 'ns': rng.choice([601, 700, 5]) * 10**9})
    else:
        queue = []
        for s in scripts:
            ops.append(mk_script(s))
            queue.append([s['sid'], list(s['probes'])])
            # interleave: probe some earlier script
            for _ in range(rng.randint(0, 3)):
                live = [q for q in queue if q[1]]
                if not live:
                    break
                q = rng.choice(live)
                ops.append({'op': 'probe', 'sid': q[0], 'p': q[1].pop(0)})
            if rng.random() < 0.3:
                ops.append({'op': 'gc'})
        while any(q[1] for q in queue):
            q = rng.choice([q for q in queue if q[1]])
            ops.append({'op': 'probe', 'sid': q[0], 'p': q[1].pop(0)})
            if not q[1] and rng.random() < 0.7:
                ops.append({'op': 'drop', 'sid': q[0]})
                if rng.random() < 0.5:
                    ops.append({'op': 'gc'})
    # drop everything in one batch, then an epilogue of fresh Scripts (so that a death
    # around the batch is followed by the Script that discovers it and by one that must
    # have fully recovered), then the census
    for s in scripts:
        ops.append({'op': 'drop', 'sid': s['sid']})
    for j in range(2):
        if same and b_same is not None:
            e = {'sid': 'e%d' % j, 'code': b_same.text, 'probes': list(b_same.probes)[:4], 'path': 'same.py'}
            ops.append(mk_script(e))
            for p in e['probes']:
                ops.append({'op': 'probe', 'sid': e['sid'], 'p': p})
            ops.append({'op': 'drop', 'sid': e['sid']})
            continue
        b = world.gen_probe_buffer(rng, mods, max_probes=2)
        for text, probes in rng.sample(BUILTIN_PROBES, 2):
            b.add(text, probes)
        rng.shuffle(b.probes)
        e = {'sid': 'e%d' % j, 'code': b.text, 'probes': b.probes[:3], 'path': None}
        ops.append(mk_script(e))
        for p in e['probes']:
            ops.append({'op': 'probe', 'sid': e['sid'], 'p': p})
        ops.append({'op': 'drop', 'sid': e['sid']})
    ops.append({'op': 'census'})
    return {'id': sid, 'init': init, 'ops': ops, 'hashseed': rng.randint(0, 3),
            'env': env, 'mode': mode, 'gc_auto': rng.random() < 0.2}


def gen_lifecycle(rng, sid, n):
    """many Scripts created and dropped, some never touching the helper"""
    w = world.gen_world(rng, n_top=2, with_pkg=False, with_ns=False)
    init = [{'op': 'fs', 'kind': 'write', 'path': p, 'content': c, 'mt': MT0} for p, c in sorted(w.files.items())]
    ops = []
    live = []
    burst_at = rng.randrange(n) if rng.random() < 0.5 else None
    for j in range(n):
        if j == burst_at:
            # many tabs: 12-20 Scripts that all used the helper are alive at once, are discarded
            # together and finalised by ONE collector run (their helper-side states must all go)
            bs = ['B%d' % k for k in range(rng.randint(12, 20))]
            for b in bs:
                ops.append({'op': 'script', 'sid': b, 'code': 'import ma\nv = ma.VALUE\nv\n"s".upper\n',
                            'path': None, 'env': 'default', 'project': {'path': '.'}})
                ops.append({'op': 'probe', 'sid': b, 'p': {'m': 'complete', 'l': 4, 'c': 4}})
            for b in bs:
                ops.append({'op': 'drop', 'sid': b})
            ops.append({'op': 'gc'})
            ops.append({'op': 'census'})
        sidj = 'L%d' % j
        kind = rng.random()
        if kind < 0.25:
            code, probes = 'x = 1\nx\n', []            # never queried
        elif kind < 0.5:
            code, probes = 'def f(a):\n    return a\nf\n', [{'m': 'goto', 'l': 3, 'c': 1}]
        else:
            code, probes = 'import ma\nv = ma.VALUE\nv\n"s".upper\n', \
                [rng.choice([{'m': 'infer', 'l': 3, 'c': 1}, {'m': 'complete', 'l': 4, 'c': 4},
                             {'m': 'complete', 'l': 2, 'c': 7}])]
        ops.append({'op': 'script', 'sid': sidj, 'code': code, 'path': None, 'env': 'default',
                    'project': {'path': '.'}})
        for p in probes:
            ops.append({'op': 'probe', 'sid': sidj, 'p': p})
        live.append(sidj)
        while live and rng.random() < 0.6:
            ops.append({'op': 'drop', 'sid': live.pop(rng.randrange(len(live)))})
        if rng.random() < 0.3:
            ops.append({'op': 'gc'})
        if rng.random() < 0.15:
            ops.append({'op': 'census'})
    ops.append({'op': 'census'})
    for s in live:
        ops.append({'op': 'drop', 'sid': s})
    ops.append({'op': 'census'})
    return {'id': sid, 'init': init, 'ops': ops, 'hashseed': 0, 'env': 'default', 'mode': 'lifecycle',
            'gc_auto': rng.random() < 0.3}


# ---------------------------------------------------------------------------

def spec_of(case, reference):
    ops = case['ops']
    return {'init': case['init'], 'ops': ops, 'reference': bool(reference), 'faults': [] if reference else case.get('faults', []),
            'inv': ['zombie'], 'log_fns': True, 'gc_auto': case.get('gc_auto', False)}


def run_one(case, reference, timeout=60):
    root = driver.new_root('c14')
    try:
        spec = spec_of(case, reference)
        spec['watchdog_s'] = max(10, timeout - 8)
        return driver.run_subject(spec, root, hashseed=case.get('hashseed', 0), timeout=timeout)
    finally:
        driver.rm_root(root)


def judge(case, ref, run):
    """returns (verdict, sig, detail, stats)"""
    ops = case['ops']
    stats = {'deaths': 0, 'fired': [], 'lost_scripts': 0, 'recovered_probes': 0}
    if run.timed_out:
        nxt = ops[len(run.events)] if len(run.events) < len(ops) else {}
        return 'violation', 'hang', {'completed_ops': len(run.events),
                                     'hung_op': {k: v for k, v in nxt.items() if k != 'code'},
                                     'faults': case.get('faults')}, stats
    if not run.complete:
        return 'harness_error', None, {'rc': run.rc, 'stderr': run.stderr[-1500:], 'events': len(run.events)}, stats
    if len(run.events) != len(ops) or len(ref.events) != len(ops):
        return 'harness_error', None, {'why': 'event count', 'n': [len(ops), len(ref.events), len(run.events)]}, stats

    dead = set()             # helper generations that have died
    pending = set()          # ... and whose death the host has not observed yet
    bound = {}               # sid -> generation index the Script is bound to
    live = set()
    failing_after = collections.OrderedDict()
    problems = []
    recursion_tainted = set()

    for i, (op, ev, rv) in enumerate(zip(ops, run.events, ref.events)):
        kind = op['op']
        fired = ev.get('fired') or []
        stats['fired'] += [[f['phase'], f.get('fn')] for f in fired]
        inflight = [f for f in fired if f['phase'] in DEATH_PHASES]
        idle = [f for f in fired if f['phase'] == 'kill_idle']
        res, refres = ev.get('res'), rv.get('res')
        if ev.get('harness_error'):
            return 'harness_error', None, {'op': i, 'err': ev['harness_error']}, stats
        for f in idle:
            stats['deaths'] += 1
            dead.add(f['gen'])
            pending.add(f['gen'])
        for f in inflight:
            stats['deaths'] += 1
            dead.add(f['gen'])          # observed at once: the host is blocked on this request
        for g in ev.get('on_dead_gens') or []:
            pending.discard(g)
        if any(f['phase'] == 'raise_in_handler' for f in fired) and kind in ('script', 'probe'):
            # an exception relayed by a living helper is not a death: what this query and later
            # queries on the same Script answer is C16's business, not judged here
            recursion_tainted.add(op['sid'])
            stats['handler_exceptions'] = stats.get('handler_exceptions', 0) + 1
        if kind == 'script':
            live.add(op['sid'])
            if 'bound_gen' in ev:
                bound[op['sid']] = ev['bound_gen']
                if ev['bound_gen'] in dead and ev['bound_gen'] not in pending and not inflight:
                    # the host knew that this helper was dead and still bound a new Script to it
                    problems.append(('no_replacement', {'op': i, 'sid': op['sid'], 'gen': ev['bound_gen']}))
        observed_here = bool(inflight) or bool(ev.get('on_dead'))
        doomed = {sid for sid, g in bound.items() if g in dead}
        if kind in ('script', 'probe'):
            sid = op['sid']
            if is_exc(refres, 'RecursionError') or is_exc(res, 'RecursionError'):
                recursion_tainted.add(sid)
            if sid in recursion_tainted:
                continue
            if res == ['NOSCRIPT']:
                continue        # construction of this Script failed and was judged there
            same = sort_result(res) == sort_result(refres)
            if not same and kind == 'probe' and builtin_representative_differs(op['p'], sort_result(res), sort_result(refres)):
                same = True     # listed C16 finding (arbitrary representative of a builtin instance), not a recovery failure
            if same:
                if sid not in doomed and stats['deaths']:
                    stats['recovered_probes'] += 1
                continue
            where = {'op': i, 'kind': kind, 'sid': sid, 'got': _short(res), 'ref': _short(refres),
                     'fired': [[f['phase'], f.get('fn'), f['k']] for f in fired]}
            if is_exc(res):
                if not is_exc(res, 'InternalError'):
                    # Script() - or a query of a Script bound to a dead helper that asks the
                    # environment again - starts the replacement; the fault hit its handshake
                    handshake = res[1] == 'InvalidPythonEnvironment' and \
                        any(f.get('fn') == '_get_info' for f in inflight)
                    problems.append(('wrong_exception:%s%s' % (res[1], '@handshake' if handshake else ''), where))
                    continue
                if sid not in doomed and not (observed_here and kind == 'script'):
                    problems.append(('no_recovery', where))
                else:
                    failing_after[sid] = True
            else:
                if sid in doomed:
                    problems.append(('silent_divergence', where))
                else:
                    problems.append(('no_recovery_divergence', where))
        elif kind == 'drop':
            live.discard(op['sid'])
        elif kind == 'census':
            c = res or {}
            if isinstance(c, dict):
                if not pending:
                    if c.get('zombies'):
                        problems.append(('zombie', {'op': i, 'census': c}))
                    if c.get('pipe_fds') != 3 * c.get('alive_helpers', 0):
                        problems.append(('pipe_leak', {'op': i, 'census': c}))
                    if c.get('threads') != c.get('alive_helpers', 0):
                        problems.append(('thread_leak', {'op': i, 'census': c}))
                    if c.get('table_ok') is False:
                        problems.append(('helper_state_leak', {'op': i, 'census': c}))
                    rc = rv.get('res') or {}
                    if isinstance(rc, dict) and c.get('alive_helpers', 0) > rc.get('alive_helpers', 0):
                        problems.append(('helper_leak', {'op': i, 'census': c, 'ref': rc}))
        if ev.get('inv_bad') and not pending:
            problems.append(('inv:%s' % ev['inv_bad'][0][0], {'op': i, 'bad': ev['inv_bad']}))
    stats['lost_scripts'] = len(failing_after)
    if problems:
        sig = problems[0][0]
        phases = sorted({f[0] for f in stats['fired']})
        return 'violation', sig + '|' + '+'.join(phases), {'problems': [[s, w] for s, w in problems[:4]]}, stats
    return 'ok', None, None, stats


def _short(r):
    s = json.dumps(r)
    return s if len(s) < 300 else s[:300] + '...'


class C14(base.Engine):
    pid = 'C14'
    level = 'fault_enumeration'
    technique = 'deterministic simulation: helper-pipe proxy injects death at every request index x protocol phase; model-based judge + undisturbed reference run'
    budgets = (80, 2400)
    assumptions = [
        'the helper is a real OS process; interleavings finer than the request boundary are not scheduled (the listener is single-threaded and strictly request/reply)',
        '"at most one query" is read as at most one Script created after the death; Scripts bound to the dead helper at construction may keep failing with InternalError',
        'the stderr drain thread is real and unscheduled (it only feeds debug output, which is off)',
        'RecursionError results (sandbox has no typeshed) make a Script inconclusive',
    ]
    components = {
        'real': ['jedi host side', 'jedi helper process (Listener, functions, access)', 'CPython pickle', 'kernel pipes and process table'],
        'simulated': ['moment and manner of helper death (pipe proxy)', 'GC schedule', 'clock read by jedi.cache (environment cache expiry)', 'hash seed'],
        'stubbed': [],
    }

    def execute(self, case):
        driver.begin_case(case)
        ref = case.get('_ref')
        if ref is None:
            ref = run_one(case, True)
            if ref.timed_out:
                ref = run_one(case, True, timeout=200)
        if not ref.complete:
            return {'verdict': 'harness_error', 'detail': {'reference': True, 'rc': ref.rc, 'timed_out': ref.timed_out,
                                                           'stderr': ref.stderr[-1500:]}}
        if case.get('reference_only'):
            return {'verdict': 'ok', 'ref': ref, 'stats': {'reqs': ref.end['reqs']}}
        fast = case.get('_fast_hang')
        run = run_one(case, False, timeout=40 if fast else 60)
        if run.timed_out and not fast:
            # a timed-out run is re-run once with a generous limit (machine load must
            # never be reported as a hang); a second timeout is a hang
            run = run_one(case, False, timeout=150)
        verdict, sig, detail, stats = judge(case, ref, run)
        stats['digest'] = driver.events_digest(run.events)
        stats['sim_s'] = sum(o.get('ns', 0) for o in case['ops'] if o['op'] == 'advance') / 1e9 + \
            4.0 * sum(1 for o in case['ops'] if o['op'] == 'census')
        stats['env'] = case.get('env')
        return {'verdict': verdict, 'sig': sig, 'detail': detail, 'stats': stats}

    # ------------------------------------------------------------------
    def run(self, tier, seed, budget_s):
        import time
        t0 = time.time()
        rng = driver.rng_for(seed, 'C14', tier, 'scenarios')
        n_sc = 12 if tier == 'quick' else 20
        scenarios = [gen_scenario(driver.rng_for(seed, 'C14', 'sc', i), 'sc%d' % i) for i in range(n_sc)]
        n_lc = 2 if tier == 'quick' else 6
        for i in range(n_lc):
            r = driver.rng_for(seed, 'C14', 'lc', i)
            scenarios.append(gen_lifecycle(r, 'lc%d' % i, 30 if tier == 'quick' else r.choice([60, 120, 200])))
        refs = driver.run_cases('C14', [dict(s, reference_only=True) for s in scenarios])
        self.scen = {}
        ok_scen = []
        pairs = []
        for c, r in refs:
            if r['verdict'] != 'ok':
                pairs.append((c, r))
                continue
            s = dict(c)
            s.pop('reference_only')
            s['_ref'] = r.pop('ref')
            s['_nreq'] = r['stats']['reqs']
            ok_scen.append(s)
        self.n_scen = len(ok_scen)
        self.exhaustive = False

        def cases():
            # 0. undisturbed self-check: the reference must satisfy the model
            for s in ok_scen:
                yield dict(s, id=s['id'] + ':nofault', faults=[])
            # 0b. directed witnesses: the replacement helper dies in its handshake
            for s in ok_scen[:3]:
                if s['mode'] != 'lifecycle':
                    for v in ({'phase': 'kill_after_send'}, {'phase': 'die_by_exception', 'exc': 'SystemExit'}):
                        yield dict(s, id=s['id'] + ':handshake:' + v['phase'],
                                   faults=[{'phase': 'kill_after_send', 'req': max(2, s['_nreq'] // 3)},
                                           dict(v, fn='_get_info', occ=2)])
            if tier == 'thorough':
                # 1. every single-fault point of as many (non-lifecycle) scenarios as fit
                #    the cap, smallest request count first
                cap = int(os.environ.get('VERIF_C14_SWEEP_CAP', '4500'))
                swept = []
                total = 0
                for s in sorted([x for x in ok_scen if x['mode'] != 'lifecycle'], key=lambda x: x['_nreq']):
                    n = s['_nreq'] * len(phase_variants())
                    if total + n > cap and swept:
                        break
                    swept.append(s)
                    total += n
                self.swept = [(x['id'], x['_nreq']) for x in swept]
                for s in swept:
                    for k in range(1, s['_nreq'] + 1):
                        for v in phase_variants():
                            f = dict(v, req=k)
                            yield dict(s, id='%s:k%d:%s' % (s['id'], k, _vname(v)), faults=[f])
                self.exhaustive = True
            n = 0
            while True:
                r = driver.rng_for(seed, 'C14', tier, 'plan', n)
                s = r.choice(ok_scen)
                yield self.random_plan(r, s, n)
                n += 1
                if tier == 'quick' and n >= 400:
                    return
                if tier == 'thorough' and n >= 4000:
                    return

        pairs += driver.run_cases('C14', cases(), budget_s=max(10, budget_s - (time.time() - t0)))
        return pairs

    def random_plan(self, r, s, n):
        nreq = s['_nreq']
        kind = r.random()
        ops = list(s['ops'])
        faults = []

        def one_fault(lo=1):
            v = dict(r.choice(phase_variants()))
            v['req'] = r.randint(lo, max(lo, nreq))
            return v
        batch = _batch_drop_positions(ops)
        ref = s.get('_ref')
        if ref is not None and r.random() < 0.12:
            # the FIRST stateful request a Script ever makes is answered with an exception by the
            # (living) helper, and the Script is discarded without another request
            cand = []
            seen = set()
            for i, (o, e) in enumerate(zip(s['ops'], ref.events)):
                if o['op'] == 'probe' and o['sid'] not in seen and e.get('first_state_req'):
                    seen.add(o['sid'])
                    cand.append((i, o['sid'], e['first_state_req']))
                elif o['op'] == 'probe' and e.get('first_state_req'):
                    seen.add(o['sid'])
            if cand:
                i, sid, k = r.choice(cand)
                ops = [o for j, o in enumerate(ops) if not (o['op'] == 'probe' and o['sid'] == sid and j != i)]
                faults.append({'phase': 'raise_in_handler', 'req': k, 'exc': r.choice(['ValueError', 'RuntimeError'])})
                return dict(s, id='%s:plan%d' % (s['id'], n), faults=faults, ops=ops, _ref=None)
        if r.random() < 0.12:
            pass        # no death: only the GC schedule (gc_now entries below) differs from the reference
        elif batch and r.random() < 0.25:
            # the helper dies unnoticed right before a batch of discarded Scripts is
            # collected: their deletion requests are pending when the death is discovered
            i, j = r.choice(batch)
            ops.insert(j, {'op': 'gc'})         # the discarded Scripts are finalised before anybody notices the death
            ops.insert(i, {'op': 'kill_helper', 'pick': r.randint(0, 3)})
        elif s['mode'] == 'lifecycle' or kind < 0.45:
            faults.append(one_fault())
        elif kind < 0.6:
            pos = r.randrange(len(ops))
            ops.insert(pos, {'op': 'kill_helper', 'pick': r.randint(0, 3)})
        elif kind < 0.8:
            # two or three deaths, later ones land in the recovered session
            k = 1
            for _ in range(r.randint(2, 3)):
                f = one_fault(k)
                faults.append(f)
                k = f['req'] + r.randint(1, 12)
        elif kind < 0.9:
            # the replacement dies during its handshake
            faults.append(one_fault())
            v = dict(r.choice(phase_variants()))
            v.update({'fn': '_get_info', 'occ': 2})
            faults.append(v)
        else:
            pos = r.randrange(len(ops))
            ops.insert(pos, {'op': 'kill_helper', 'pick': r.randint(0, 3)})
            faults.append(one_fault())
        if r.random() < 0.3:
            ops.insert(r.randrange(len(ops)), {'op': 'gc'})
        if r.random() < 0.3:
            # the helper raises an ordinary exception while serving a request (it stays alive):
            # not a death, but the helper-side bookkeeping must survive it
            for _ in range(r.randint(1, 2)):
                f = {'phase': 'raise_in_handler', 'exc': r.choice(['ValueError', 'RuntimeError', 'KeyError'])}
                if r.random() < 0.6:
                    # first stateful request of some Script: get_module_info / load_module /
                    # create_simple_object are typical first requests
                    f.update(fn=r.choice(['get_module_info', 'load_module', 'create_simple_object',
                                          'get_compiled_method_return', 'safe_literal_eval']),
                             occ=r.randint(1, 5))
                else:
                    f['req'] = r.randint(1, max(1, nreq))
                faults.append(f)
        if r.random() < 0.35:
            # the collector runs inside a request: while deletion messages are being flushed
            # (finalizers of other discarded Scripts then append to the queue being drained),
            # or at an arbitrary request
            for _ in range(r.randint(1, 3)):
                if r.random() < 0.7:
                    faults.append({'phase': 'gc_now', 'fn': '<delete>', 'occ': r.randint(1, 6)})
                else:
                    faults.append({'phase': 'gc_now', 'req': r.randint(1, max(1, nreq))})
        c = dict(s, id='%s:plan%d' % (s['id'], n), faults=faults, ops=ops)
        if len(ops) != len(s['ops']):
            c.pop('_ref', None)     # op indices moved: reference is recomputed
        return c

    # ------------------------------------------------------------------
    def shrink(self, case, result):
        sig = result.get('sig')
        base_case = self.strip(case)

        hang = (sig or '').startswith('hang')

        def fails(c):
            if hang:
                c = dict(c, _fast_hang=True)    # candidates: one short run; the final case is re-judged in full
            r = self.execute(c)
            return r['verdict'] == 'violation' and r.get('sig') == sig

        # fewer faults first
        faults = list(base_case.get('faults', []))
        changed = True
        while changed and len(faults) > 1:
            changed = False
            for i in range(len(faults)):
                cand = dict(base_case, faults=faults[:i] + faults[i + 1:])
                if fails(cand):
                    faults = cand['faults']
                    base_case = cand
                    changed = True
                    break
        mc, used = driver.ddmin_ops(base_case, 'ops', fails, budget=16 if hang else 40, fixup=_fixup_ops)
        mr = self.execute(mc)
        if mr['verdict'] != 'violation':
            return base_case, self.execute(base_case)
        return mc, mr

    def known_match(self, case, result, known):
        sig = result.get('sig') or ''
        for k in known['findings']:
            if k.get('property') != 'C14':
                continue
            m = k.get('match', {})
            if m.get('sig_prefix') and sig.startswith(m['sig_prefix']):
                # every problem of the case must be of the listed kind
                probs = (result.get('detail') or {}).get('problems') or []
                if all(p[0].startswith(m['sig_prefix']) for p in probs):
                    return k
        return None

    def coverage(self, pairs, tier):
        ev = 0
        fired = collections.Counter()
        sigs = set()
        digests = set()
        nontrivial = set()
        deaths = 0
        recovered = 0
        sim = 0.0
        envs = collections.Counter()
        for c, r in pairs:
            if r['verdict'] == 'harness_error':
                continue
            ev += 1
            st = r.get('stats', {})
            for ph, fn in st.get('fired', []):
                fired[ph] += 1
                sigs.add((ph, fn))
            deaths += st.get('deaths', 0)
            recovered += st.get('recovered_probes', 0)
            sim += st.get('sim_s', 0)
            envs[st.get('env')] += 1
            if st.get('deaths'):
                nontrivial.add(st.get('digest'))
            digests.add(st.get('digest'))
        samples = []
        for c, r in pairs[:400]:
            if r.get('stats', {}).get('deaths') and len(samples) < 3:
                samples.append({'id': c.get('id'), 'faults': c.get('faults'),
                                'ops': [_op_brief(o) for o in c['ops']][:40],
                                'fired': r['stats']['fired'], 'verdict': r['verdict']})
        return {
            'evaluations': ev,
            'distinct_nontrivial': len(nontrivial),
            'rule': 'one evaluation = one scenario executed under one fault plan in a fresh interpreter '
                    '(plus its undisturbed reference); non-trivial = at least one helper death actually fired; '
                    'distinct = distinct event-log digests among those',
            'samples': samples or [{'note': 'no fault fired'}],
            'exhaustive': bool(getattr(self, 'exhaustive', False)),
            'exhaustive_scope': ('every (request index, phase variant) single-fault point of scenarios %s (id, requests)'
                                 % (getattr(self, 'swept', []),))
                                if getattr(self, 'exhaustive', False) else 'none (seeded sample)',
            'scenarios': getattr(self, 'n_scen', 0),
            'faults_fired_by_kind': dict(fired),
            'distinct_state_signatures': len(sigs),
            'state_signature': '(fault phase, helper function in flight)',
            'helper_deaths_injected': deaths,
            'probes_answered_identically_after_recovery': recovered,
            'simulated_time_s': sim,
            'scenario_environments': {str(k): v for k, v in envs.items()},
        }


def _batch_drop_positions(ops):
    """indices i such that ops[i:] starts with >= 2 drops (gc ops allowed in
    between) before the next probe"""
    out = []
    for i, o in enumerate(ops):
        if o['op'] != 'drop':
            continue
        n = 0
        j = i
        for k, p in enumerate(ops[i:], i):
            if p['op'] == 'drop':
                n += 1
                j = k + 1
            elif p['op'] in ('gc', 'advance'):
                continue
            else:
                break
        if n >= 2:
            out.append((i, j))
    return out


def _vname(v):
    s = v['phase']
    for k in ('n', 'frac', 'from_end', 'exc'):
        if k in v:
            s += '-%s%s' % (k, v[k])
    return s


def _op_brief(o):
    if o['op'] == 'script':
        return {'op': 'script', 'sid': o['sid'], 'path': o.get('path'), 'code_lines': (o.get('code') or '').count('\n')}
    return o


def _fixup_ops(case):
    """after ops were dropped: remove probes/drops of Scripts that are no longer created"""
    created = set()
    ops = []
    for o in case['ops']:
        if o['op'] == 'script':
            created.add(o['sid'])
        elif o['op'] in ('probe', 'drop') and o['sid'] not in created:
            continue
        ops.append(o)
    case['ops'] = ops
    return case


ENGINE = C14()
