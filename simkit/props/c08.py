"""
C08 - answers do not depend on the editing history of a buffer.

One case = a world of unopened modules + 1-3 buffers (pathed or path-less)
edited in a seeded interleaving; after every edit a new Script is built in the
long-lived subject and probed at positions sampled from the current text.
Clock advances, cache clearing, Project.search, GC and cache-size / validity /
fast_parser knobs are further ops.  Oracle: a pristine process (empty caches,
new helper) asked the same probes on the same text.
"""
import collections
import json
import re

from simkit import base, driver, world
from simkit.canon import sort_result, is_exc, builtin_representative_differs

MT0 = 1_400_000_000 * 10**9
IDENT = re.compile(r'[A-Za-z_]\w*')
KEYWORDS = {'def', 'class', 'return', 'import', 'from', 'as', 'if', 'else', 'elif', 'for', 'in', 'while',
            'pass', 'None', 'True', 'False', 'not', 'and', 'or', 'is', 'with', 'try', 'except', 'lambda',
            'yield', 'self'}
ADVANCES = [0, 10**6, 5 * 10**8, 29 * 10**8, 31 * 10**8, 61 * 10**9, 601 * 10**9, 86400 * 10**9, -5 * 10**9]


# ---------------------------------------------------------------------------
# initial buffer
# ---------------------------------------------------------------------------

def gen_buffer_text(rng, mods, tag):
    tops = [m for m in mods if '.' not in m]
    rng.shuffle(tops)
    a = tops[0]
    c = tops[1 % len(tops)]
    L = ['import %s' % a, 'from %s import func as f_%s, Klass as K_%s' % (c, c, c), '']
    L += ['class Local%s:' % tag,
          '    """doc Local%s"""' % tag,
          '    cattr_%s = 3' % tag,
          '',
          '    def meth_%s(self, p1_%s, p2_%s=None):' % (tag, tag, tag),
          '        self.ia_%s = p1_%s' % (tag, tag),
          '        return %s.Klass()' % a,
          '',
          '    def other_%s(self):' % tag,
          '        return self.meth_%s(1)' % tag,
          '',
          '']
    L += ['def helper_%s(a_%s, b_%s=1):' % (tag, tag, tag),
          '    """helper doc %s"""' % tag,
          '    loc_%s = Local%s()' % (tag, tag),
          '    return loc_%s.meth_%s(a_%s)' % (tag, tag, tag),
          '',
          '']
    L += ['def gen_%s(n_%s):' % (tag, tag),
          '    first_%s = n_%s' % (tag, tag),
          '    yield first_%s' % tag,
          '    yield "text"',
          '',
          '',
          'for it_%s in gen_%s(1):' % (tag, tag),
          '    it_%s.real' % tag,
          'multi_%s = helper_%s(1,' % (tag, tag),
          '                     2)',
          '']
    L += ['val_%s = helper_%s(1, 2)' % (tag, tag),
          'val_%s.method(1)' % tag,
          'obj_%s = Local%s()' % (tag, tag),
          'obj_%s.other_%s().method' % (tag, tag),
          'res_%s = f_%s(3)' % (tag, c),
          'k_%s = K_%s(1)' % (tag, c),
          'k_%s.method(1)' % tag,
          '%s.func(1)' % a,
          'text_%s = "abc"' % tag,
          'text_%s.upper()' % tag,
          '']
    return L


STATEMENTS = [
    'extra_{n} = {a}.Klass()',
    'extra_{n}.method(1)',
    'def added_{n}(q_{n}, r_{n}=2):',
    '    return q_{n}',
    'class Added_{n}:',
    '    zattr_{n} = 1',
    '    def zm_{n}(self, w_{n}):',
    '        return w_{n}',
    'added_{n}(1, 2)',
    'Added_{n}().zm_{n}(1)',
    'import {b}',
    'from {b} import *',
    'from {a} import *',
    'NAME_',
    'Klass().method',
    'from {b} import VALUE as V_{n}',
    'V_{n}.method',
    'num_{n} = 1 + 2',
    'num_{n}.real',
    'for it_{n} in [1, 2]:',
    '    it_{n}',
    'if True:',
    '    cond_{n} = "s"',
    'lam_{n} = lambda z_{n}: z_{n}',
    'lam_{n}(1)',
    '# comment {n}',
    '',
    'with open("f") as fh_{n}:',
    '    pass',
    'try:',
    '    tv_{n} = {a}.func(1)',
    'except Exception as ex_{n}:',
    '    pass',
    '{a}.func(',
    'x_{n} = (',
    ')',
    'def broken_{n}(',
    '    yield {a}.Klass()',
    '    yield 1.5',
    'mc_{n} = {a}.func(1,',
    '    2)',
]


def gen_standalone_text(tag):
    """no imports at all: every scope lookup stays inside this one module"""
    t = tag
    return [
        'class Alpha_%s:' % t,
        '    first_%s = 1' % t,
        '',
        '    def one_%s(self):' % t,
        '        return "s"',
        '',
        'class Beta_%s:' % t,
        '    second_%s = 1.5' % t,
        '',
        '    def two_%s(self):' % t,
        '        return self.second_%s' % t,
        '',
        '    def three_%s(self):' % t,
        '        return Alpha_%s()' % t,
        '',
        'class Gamma_%s(Alpha_%s):' % (t, t),
        '    def four_%s(self, g_%s):' % (t, t),
        '        inner_%s = g_%s' % (t, t),
        '        return inner_%s' % t,
        '',
        'def util_%s(p_%s):' % (t, t),
        '    loc_%s = Beta_%s()' % (t, t),
        '    return loc_%s' % t,
        '',
        'a_%s = Alpha_%s()' % (t, t),
        'a_%s.one_%s()' % (t, t),
        'a_%s.first_%s' % (t, t),
        'b_%s = Beta_%s()' % (t, t),
        'b_%s.two_%s()' % (t, t),
        'b_%s.three_%s().one_%s()' % (t, t, t),
        'util_%s(1).second_%s' % (t, t),
        'Gamma_%s().four_%s(1)' % (t, t),
        '',
    ]


class Editor:
    """driver-side text editor producing successive full texts"""

    standalone = False

    def __init__(self, rng, lines, mods, world_files):
        self.rng = rng
        self.lines = list(lines)
        self.undo_stack = []
        self.mods = [m for m in mods if '.' not in m]
        self.world_files = world_files
        self.n = 0

    @property
    def text(self):
        return '\n'.join(self.lines) + '\n'

    def fresh_stmt(self):
        self.n += 1
        t = self.rng.choice(STATEMENTS)
        while self.standalone and ('import' in t or '{a}' in t or '{b}' in t):
            t = self.rng.choice(STATEMENTS)
        return t.format(n=self.n, a=self.rng.choice(self.mods), b=self.rng.choice(self.mods))

    def step(self):
        rng = self.rng
        self.undo_stack.append(list(self.lines))
        self.undo_stack = self.undo_stack[-6:]
        L = self.lines
        kinds = ['insert_line'] * 4 + ['delete_line'] * 3 + ['replace_line'] * 2 + ['insert_chars'] * 3 + \
            ['delete_chars'] * 3 + ['edit_yield', 'edit_yield', 'indent', 'dedent', 'paste', 'undo', 'dup_block', 'edit_sig', 'edit_sig',
                                    'move_def', 'rename_def', 'swap_lines', 'delete_block', 'append_use']
        if self.standalone:
            kinds = [x for x in kinds if x != 'paste'] + ['drop_header'] * 5 + ['insert_header'] * 2
        else:
            kinds = kinds + ['toggle_star'] * 3
        if getattr(self, 'near_limit', False):
            kinds = kinds + ['grow_tail'] * 8
        k = rng.choice(kinds)
        if not L:
            k = 'insert_line'
        if k == 'toggle_star':
            # a star import appears / disappears / changes its target; the names it brings are used below
            star = [i for i, l in enumerate(L) if l.startswith('from ') and l.endswith(' import *')]
            tops = [m for m in self.mods if '.' not in m] or list(self.mods)
            if star and rng.random() < 0.5:
                del L[star[0]]
            elif star:
                L[star[0]] = 'from %s import *' % rng.choice(tops)
            else:
                L.insert(0, 'from %s import *' % rng.choice(tops))
            if not any(l == 'NAME_' for l in L):
                L.append('NAME_')
                L.append('func(1)')
        elif k == 'insert_line':
            L.insert(rng.randint(0, len(L)), self.fresh_stmt())
        elif k == 'delete_line':
            del L[rng.randrange(len(L))]
        elif k == 'replace_line':
            L[rng.randrange(len(L))] = self.fresh_stmt()
        elif k == 'insert_chars':
            i = rng.randrange(len(L))
            s = rng.choice(['.', '(', ')', ' ', 'x', 'self.', ', ', '=', ':', '"', '#', '    ', 'a.b', '[0]', '1'])
            p = rng.randint(0, len(L[i]))
            L[i] = L[i][:p] + s + L[i][p:]
        elif k == 'delete_chars':
            i = rng.randrange(len(L))
            if L[i]:
                p = rng.randrange(len(L[i]))
                q = min(len(L[i]), p + rng.randint(1, 4))
                L[i] = L[i][:p] + L[i][q:]
        elif k in ('indent', 'dedent'):
            i = rng.randrange(len(L))
            j = min(len(L), i + rng.randint(1, 4))
            for x in range(i, j):
                if k == 'indent':
                    L[x] = '    ' + L[x] if L[x] else L[x]
                elif L[x].startswith('    '):
                    L[x] = L[x][4:]
        elif k == 'paste':
            src = rng.choice(sorted(self.world_files))
            sl = self.world_files[src].split('\n')
            i = rng.randrange(len(sl))
            block = [l for l in sl[i:i + rng.randint(2, 8)] if 'JV_SENTINEL' not in l]
            at = rng.randint(0, len(L))
            L[at:at] = block
        elif k == 'undo':
            if len(self.undo_stack) >= 2:
                self.lines = list(self.undo_stack[-2])
        elif k == 'dup_block':
            i = rng.randrange(len(L))
            j = min(len(L), i + rng.randint(1, 5))
            at = rng.randint(0, len(L))
            L[at:at] = L[i:j]
        elif k == 'swap_lines':
            if len(L) >= 2:
                i = rng.randrange(len(L) - 1)
                L[i], L[i + 1] = L[i + 1], L[i]
        elif k == 'delete_block':
            i = rng.randrange(len(L))
            del L[i:i + rng.randint(2, 6)]
        elif k == 'grow_tail':
            # a block is pasted at the END of the file (everything before keeps its position)
            for _ in range(rng.randint(4, 14)):
                self.n += 1
                L.append(rng.choice(['# note %d about nothing in particular', 'tail_%d = 0', '']) .replace('%d', str(self.n)))
        elif k == 'drop_header':
            # the header line of a class/def disappears: its body falls into the preceding scope
            # without a single character of the body changing
            hs = [i for i, l in enumerate(L) if re.match(r'\s*(class|def) \w+.*:\s*$', l)]
            if hs:
                del L[rng.choice(hs)]
        elif k == 'insert_header':
            blocks = [i for i, l in enumerate(L) if l.startswith('    ') and (i == 0 or not L[i - 1].startswith('    '))]
            if blocks:
                self.n += 1
                L.insert(rng.choice(blocks), rng.choice(['class New_%d:', 'def new_%d():']) % self.n)
        elif k == 'edit_yield':
            # change what a generator yields somewhere in the TAIL of its body (header and first
            # statement untouched: the diff parser then keeps the funcdef node)
            ys = [i for i, l in enumerate(L) if re.match(r'\s+(yield|return) ', l)]
            if ys:
                i = rng.choice(ys)
                ind = re.match(r'\s+', L[i]).group(0)
                choice = rng.random()
                expr = rng.choice(['"s"', '1.5', 'b"x"', '%s.Klass()' % rng.choice(self.mods), '[1]', 'n'])
                if choice < 0.5:
                    L[i] = ind + 'yield ' + expr
                elif choice < 0.7:
                    L[i] = ind + 'return ' + expr
                else:
                    L.insert(i + 1, ind + 'yield ' + expr)
        elif k == 'edit_sig':
            # change a def's parameter list, keep every call site's text and bracket position
            defs = [i for i, l in enumerate(L) if re.match(r'\s*def \w+\(', l)]
            if defs:
                i = rng.choice(defs)
                m = re.match(r'(\s*def \w+\()(.*)(\):.*)', L[i])
                if m:
                    self.n += 1
                    params = [p.strip() for p in m.group(2).split(',') if p.strip()]
                    choice = rng.random()
                    if choice < 0.4 or not params:
                        params.append('np_%d=0' % self.n)
                    elif choice < 0.7 and len(params) > 1:
                        params.pop()
                    else:
                        j = rng.randrange(len(params))
                        if params[j] != 'self' and '=' not in params[j] and not params[j].startswith('*'):
                            params[j] = 'rn_%d' % self.n
                    L[i] = m.group(1) + ', '.join(params) + m.group(3)
        elif k == 'move_def':
            defs = [i for i, l in enumerate(L) if re.match(r'(def|class) \w+', l)]
            if defs:
                i = rng.choice(defs)
                j = i + 1
                while j < len(L) and (L[j].startswith(' ') or L[j] == ''):
                    j += 1
                block = L[i:j]
                del L[i:j]
                at = rng.randint(0, len(L))
                if rng.random() < 0.4:
                    block = ['    ' + b if b else b for b in block]
                L[at:at] = block
        elif k == 'rename_def':
            defs = [(i, re.match(r'\s*(?:def|class) (\w+)', l)) for i, l in enumerate(L)]
            defs = [(i, m) for i, m in defs if m]
            if defs:
                i, m = rng.choice(defs)
                self.n += 1
                L[i] = L[i].replace(m.group(1), 'ren_%d' % self.n, 1)
        elif k == 'append_use':
            names = [m.group(1) for l in L for m in [re.match(r'(?:def|class) (\w+)', l)] if m]
            if names:
                nm = rng.choice(names)
                L.append(rng.choice(['%s(1)', '%s', '%s().x', 'u = %s(1, 2)']) % nm)
        return self.text

    def type_statement(self):
        """char-by-char typing of one statement at the end: yields successive texts"""
        stmt = self.fresh_stmt().strip() or 'pass'
        self.lines.append('')
        for ch in stmt:
            self.lines[-1] += ch
            yield self.text


def sample_probes(rng, text, n):
    lines = text.split('\n')
    idents = []
    parens = []
    dots = []
    for ln, l in enumerate(lines, 1):
        if ln >= 2 and lines[ln - 2].rstrip().endswith(',') and '(' in lines[ln - 2] and l.startswith(' '):
            # second line of a multi-line call: the cursor sits behind the bracket's line
            parens.append((ln, len(l) - len(l.lstrip())))
            parens.append((ln, len(l) - len(l.lstrip())))
        for m in IDENT.finditer(l):
            if m.group(0) not in KEYWORDS:
                idents.append((ln, m.start(), m.end()))
        for i, ch in enumerate(l):
            if ch == '(':
                parens.append((ln, i + 1))
            elif ch == '.':
                dots.append((ln, i + 1))
    probes = []
    for _ in range(n):
        r = rng.random()
        if r < 0.22 and idents:
            ln, s, e = rng.choice(idents)
            probes.append({'m': 'infer', 'l': ln, 'c': rng.randint(s, e)})
        elif r < 0.38 and idents:
            ln, s, e = rng.choice(idents)
            probes.append({'m': 'goto', 'l': ln, 'c': rng.randint(s, e), 'kw': {'follow_imports': rng.random() < 0.5}})
        elif r < 0.55 and (dots or idents):
            if dots and rng.random() < 0.7:
                ln, c = rng.choice(dots)
            else:
                ln, s, e = rng.choice(idents)
                c = rng.randint(s, e)
            probes.append({'m': 'complete', 'l': ln, 'c': c})
        elif r < 0.72 and parens:
            ln, c = rng.choice(parens)
            probes.append({'m': 'get_signatures', 'l': ln, 'c': c})
        elif r < 0.80 and idents:
            ln, s, e = rng.choice(idents)
            probes.append({'m': 'get_references', 'l': ln, 'c': s, 'kw': {'scope': 'file'}})
        elif r < 0.86 and idents:
            ln, s, e = rng.choice(idents)
            probes.append({'m': 'help', 'l': ln, 'c': s})
        elif r < 0.91:
            probes.append({'m': 'get_names', 'kw': {'all_scopes': True, 'definitions': True, 'references': rng.random() < 0.3},
                           'light': True})
        elif r < 0.95 and idents:
            ln, s, e = rng.choice(idents)
            probes.append({'m': 'get_context', 'l': ln, 'c': s})
        else:
            probes.append({'m': 'get_syntax_errors'})
    return probes



def gen_sigcache_case(seed, tier, i, rng):
    """directed family for the time-limited signature cache (keyed by path, text before the bracket and
    bracket position): ONE pathed buffer whose call sites never move - single-line calls, calls that
    continue on later lines (cursor below the bracket's line), nested calls, a call through a rebound
    name - while only the callees change underneath (parameters added/renamed, the name rebound), with
    clock advances around the 3 s validity window; every query asks ALL call sites"""
    k = [0]

    def text(state):
        a, b, m, pick = state
        return '\n'.join([
            'def callee_a(p1%s):' % a,
            '    return p1',
            '',
            '',
            'def callee_b(q1%s):' % b,
            '    return q1',
            '',
            '',
            'class Maker:',
            '    def __init__(self, m1%s):' % m,
            '        self.m1 = m1',
            '',
            '',
            'res_a = callee_a(1, 2)',
            'res_b = callee_b(',
            '    3)',
            'res_c = callee_a(callee_b(4),',
            '                 5)',
            'res_d = Maker(',
            '    6',
            ')',
            'pick = %s' % pick,
            'res_e = pick(7,',
            '             8)',
            '']) + '\n'
    probes = [{'m': 'get_signatures', 'l': 14, 'c': 17}, {'m': 'get_signatures', 'l': 15, 'c': 17},
              {'m': 'get_signatures', 'l': 16, 'c': 4}, {'m': 'get_signatures', 'l': 17, 'c': 26},
              {'m': 'get_signatures', 'l': 18, 'c': 17}, {'m': 'get_signatures', 'l': 19, 'c': 14},
              {'m': 'get_signatures', 'l': 20, 'c': 4}, {'m': 'get_signatures', 'l': 21, 'c': 0},
              {'m': 'get_signatures', 'l': 23, 'c': 13}, {'m': 'get_signatures', 'l': 24, 'c': 13},
              {'m': 'complete', 'l': 24, 'c': 13}]
    state = ['', '', '', 'callee_a']
    buf = {'name': 'b0', 'path': 'sig.py' if rng.random() < 0.85 else None}
    knobs = {'cached_size_trigger': rng.choice([2, 600]), 'call_signatures_validity': rng.choice([3.0, 3.0, 10**6]),
             'fast_parser': rng.random() < 0.8, 'cropped_file_size': 10_000_000}
    ops = [{'op': 'knob', 'name': n, 'value': v} for n, v in sorted(knobs.items())]

    def q():
        return {'op': 'query', 'code': text(state), 'path': buf['path'], 'project': {'path': '.'},
                'probes': [dict(p) for p in probes], 'tree': True, 'buf': 'b0'}
    ops.append(q())
    for _ in range(rng.randint(5, 9) if tier == 'quick' else rng.randint(6, 16)):
        k[0] += 1
        which = rng.randrange(4)
        if which == 3:
            state[3] = rng.choice([x for x in ('callee_a', 'callee_b', 'Maker') if x != state[3]])
        else:
            state[which] = rng.choice(['', ', x%d=0' % k[0], ', *, key%d=None' % k[0], ', y%d=1, z%d=2' % (k[0], k[0])])
        ops.append({'op': 'advance', 'ns': rng.choice([0, 10**6, 5 * 10**8, 29 * 10**8, 31 * 10**8, 29 * 10**8])})
        if rng.random() < 0.1:
            ops.append({'op': 'clear_caches', 'delete_all': rng.random() < 0.5})
        ops.append(q())
    return {'id': 'c08-%d' % i, 'init': [], 'ops': ops, 'hashseed': rng.randint(0, 2), 'knobs': knobs, 'cwd': None}


def gen_case(seed, tier, i):
    rng = driver.rng_for(seed, 'C08', tier, 'case', i)
    if rng.random() < 0.1:
        return gen_sigcache_case(seed, tier, i, rng)
    w = world.gen_world(rng, n_top=rng.randint(2, 3), with_pkg=rng.random() < 0.4, with_ns=False)
    init = [{'op': 'fs', 'kind': 'write', 'path': p, 'content': c, 'mt': MT0} for p, c in sorted(w.files.items())]
    nbuf = rng.choice([1, 1, 2, 2, 3])
    bufs = []
    for b in range(nbuf):
        pathless = rng.random() < 0.35
        bufs.append({'name': 'b%d' % b, 'path': None if pathless else 'edit%d.py' % b})
    editors = []
    for b in range(nbuf):
        alone = rng.random() < 0.25
        corpus = None
        if not alone and rng.random() < 0.2:
            # a slice of the repository's completion fixtures: real-world shapes (decorators,
            # descriptors, nested scopes, comprehensions, broken code) under the same edit ops
            corpus = world.corpus_slice(rng, 30, 90)[1]
        ed = Editor(driver.rng_for(seed, 'C08', tier, 'ed', i, b),
                    corpus.split('\n')[:-1] if corpus else
                    gen_standalone_text('S%d' % b) if alone else gen_buffer_text(rng, list(w.mods), 'B%d' % b),
                    list(w.mods), w.files)
        ed.standalone = alone
        ed.corpus = bool(corpus)
        if alone and nbuf > 1 and rng.random() < 0.5:
            pass
        editors.append(ed)
    if any(e.standalone for e in editors) and rng.random() < 0.6:
        # a session on ONE self-contained file: nothing else is analysed in between
        k = [j for j, e in enumerate(editors) if e.standalone][0]
        editors, bufs, nbuf = [editors[k]], [dict(bufs[k], path=bufs[k]['path'] or 'alone.py')], 1
    # some pathed buffers were saved earlier: the file exists on disk with the INITIAL text (its mtime
    # never changes while the unsaved edits go on)
    # (a pathed buffer is never given a DIFFERENT saved version on disk: project-wide searches of other Scripts
    # would read the open buffer's unsaved tree where a fresh process reads the file - not comparable)
    opened = None
    if rng.random() < 0.3:
        # an existing project module is opened as a buffer (by absolute or by cwd-relative path)
        # after another buffer that imports it has been analysed; from then on only the opened
        # module is edited/queried (nobody may import an unsaved open buffer)
        tops = sorted(m for m in w.mods if '.' not in m)
        mname = rng.choice(tops)
        nbuf = 2
        bufs = [{'name': 'b0', 'path': 'edit0.py'},
                {'name': 'b1', 'path': w.mods[mname]['path'], 'relpath': rng.random() < 0.6}]
        ed0 = Editor(driver.rng_for(seed, 'C08', tier, 'ed', i, 0),
                     ['import %s' % mname, '%s.func(1)' % mname, '%s.Klass().method' % mname, ''], list(w.mods), w.files)
        ed1 = Editor(driver.rng_for(seed, 'C08', tier, 'ed', i, 1), w.files[w.mods[mname]['path']].split('\n')[:-1],
                     list(w.mods), w.files)
        editors = [ed0, ed1]
        opened = 1
    knobs = {'cached_size_trigger': rng.choice([1, 2, 8, 600]),
             'call_signatures_validity': rng.choice([0, 3.0, 3.0, 10**6]),
             'fast_parser': rng.random() < 0.7,
             # buffers longer than this are cropped before parsing (10 MB by default: a size no
             # generated buffer reaches, so the knob is lowered in some runs); unlike the cache
             # knobs it changes what the right answer is, so the oracle gets it too
             'cropped_file_size': rng.choice([10_000_000, 10_000_000, 10_000_000, 3000, 1800])}
    if rng.random() < 0.3:
        # just above the size of a buffer: a few insertions push it over the cropping limit
        ed_near = rng.choice(editors)
        ed_near.near_limit = True
        knobs['cropped_file_size'] = len(ed_near.text) + rng.choice([40, 120, 300])
    max_steps = 12 if tier == 'quick' else 30
    nsteps = rng.randint(4, max_steps)
    ops = [{'op': 'knob', 'name': k, 'value': v} for k, v in sorted(knobs.items())]
    # first view of every buffer
    for b in range(nbuf):
        ops.append(_query(rng, bufs[b], editors[b].text))
    steps = 0
    while steps < nsteps:
        r = rng.random()
        b = rng.randrange(nbuf) if opened is None else opened
        if opened is not None and rng.random() < 0.15:
            # the unsaved edits are discarded (file reloaded from disk) and the file is asked about
            # in the path-only form Script(path=...): jedi reads the saved text itself
            disk = w.files[w.mods[mname]['path']]
            q = {'op': 'query', 'code': None, 'path': bufs[opened]['path'], 'project': {'path': '.'},
                 'probes': sample_probes(rng, disk, rng.randint(4, 8)), 'tree': True, 'buf': bufs[opened]['name']}
            if bufs[opened].get('relpath'):
                q['relpath'] = True
            ops.append(q)
            editors[opened].lines = disk.split('\n')[:-1]
            bufs[opened]['last'] = []
            steps += 1
            continue
        if r < 0.62:
            ops.append(_query(rng, bufs[b], editors[b].step()))
            steps += 1
        elif r < 0.70:
            for t in editors[b].type_statement():
                ops.append(_query(rng, bufs[b], t, nprobes=rng.randint(1, 3)))
                steps += 1
                if steps >= nsteps:
                    break
        elif r < 0.84:
            ops.append({'op': 'advance', 'ns': rng.choice(ADVANCES)})
        elif r < 0.88:
            ops.append({'op': 'clear_caches', 'delete_all': rng.random() < 0.6})
        elif r < 0.93:
            ops.append({'op': 'project_search', 'q': rng.choice(['func', 'Klass', 'helper', 'Local', 'ma.func', 'VAL'])})
        elif r < 0.95:
            ops.append({'op': 'gc'})
        elif r < 0.975:
            # the user (or plug-in) flips a documented setting in the middle of a session;
            # the unchanged text is then asked about again
            knobs_now = not knobs.get('_fp_now', knobs['fast_parser'])
            knobs['_fp_now'] = knobs_now
            ops.append({'op': 'knob', 'name': 'fast_parser', 'value': knobs_now})
            ops.append(_query(rng, bufs[b], editors[b].text))
            steps += 1
        else:
            # re-ask the unchanged text (same-lines branch of the diff parser)
            ops.append(_query(rng, bufs[b], editors[b].text))
            steps += 1
    knobs.pop('_fp_now', None)
    return {'id': 'c08-%d' % i, 'init': init, 'ops': ops, 'hashseed': rng.randint(0, 2), 'knobs': knobs,
            'cwd': 'w' if opened is not None else None}


def _query(rng, buf, text, nprobes=None):
    probes = sample_probes(rng, text, nprobes or rng.randint(4, 10))
    # sticky probes: the same request as at the previous version of this buffer
    # (an editor re-asks signatures/completions at the cursor after every
    # keystroke) - the only way a per-position cache can be caught stale
    nlines = text.count('\n') + 1
    lines = text.split('\n')
    keep = []
    for p in buf.get('last', []):
        if 'l' in p and (p['l'] > nlines or p['c'] > len(lines[p['l'] - 1])):
            continue
        if rng.random() < 0.75:
            keep.append(p)
    probes = keep[:6] + probes
    buf['last'] = [p for p in probes if p['m'] in ('get_signatures', 'complete', 'infer', 'goto', 'help')][:8]
    # calls are re-asked most often
    buf['last'].sort(key=lambda p: p['m'] != 'get_signatures')
    q = {'op': 'query', 'code': text, 'path': buf['path'], 'project': {'path': '.'},
         'probes': probes, 'tree': True, 'buf': buf['name']}
    if buf.get('relpath'):
        q['relpath'] = True
    return q


# ---------------------------------------------------------------------------

def run_history(case):
    root = driver.new_root('c08')
    try:
        spec = {'init': case['init'], 'ops': case['ops'], 'inv': ['sentinel', 'host'], 'reset_diverged': True}
        if case.get('cwd'):
            spec['cwd'] = case['cwd']
        return driver.run_subject(spec, root, hashseed=case.get('hashseed', 0), timeout=115)
    finally:
        driver.rm_root(root)


def run_oracle(case, op, hashseed=None):
    root = driver.new_root('c08o')
    try:
        q = dict(op, tree=False)
        pre = [{'op': 'knob', 'name': 'cropped_file_size', 'value': case['knobs']['cropped_file_size']}] \
            if case.get('knobs', {}).get('cropped_file_size') else []
        spec = {'init': case['init'], 'ops': pre + [q]}
        if case.get('cwd'):
            spec['cwd'] = case['cwd']
        return driver.run_subject(spec, root, hashseed=case.get('hashseed', 0) if hashseed is None else hashseed,
                                  timeout=100)
    finally:
        driver.rm_root(root)


class C08(base.Engine):
    pid = 'C08'
    level = 'exploration'
    technique = 'deterministic simulation: seeded edit histories over long-lived process with simulated clock and cache knobs; pristine-process reference oracle per step'
    budgets = (70, 1500)
    assumptions = [
        'a step whose incrementally re-parsed tree differs from a from-scratch parse is skipped (precondition of the statement) and the cache entry reset',
        'a buffer never imports a module that is open and unsaved in another buffer (a fresh process cannot see unsaved text)',
        'results are compared per probe as sorted multisets (order is C16)',
        'RecursionError on either side makes the comparison inconclusive',
    ]
    components = {
        'real': ['jedi', 'parso incl. diff parser and in-memory cache', 'helper process'],
        'simulated': ['time.time() seen by jedi.cache/parso.cache', 'cache-size / signature-validity / fast_parser knobs', 'GC schedule', 'edit history'],
        'stubbed': [],
    }

    def execute(self, case):
        driver.begin_case(case)
        stats = collections.Counter()
        run = run_history(case)
        ops = case['ops']
        if not run.complete or len(run.events) != len(ops):
            return {'verdict': 'harness_error', 'detail': {'rc': run.rc, 'to': run.timed_out,
                                                           'stderr': run.stderr[-1500:], 'events': len(run.events)}}
        problems = []
        branches = set()
        sim_ns = 0
        for i, (op, ev) in enumerate(zip(ops, run.events)):
            if op['op'] == 'advance':
                sim_ns += abs(op['ns'])
            if ev.get('inv_bad'):
                # host-state / sentinel anomalies are C12's business: counted, not judged here
                stats['c12_invariant_anomalies'] += 1
            if op['op'] != 'query':
                continue
            res = ev['res']
            cache = ev.get('cache') or {}
            branches.add((tuple(sorted(cache)), op['path'] is None))
            stats['steps'] += 1
            if cache.get('diff_parse'):
                stats['diff_parsed_steps'] += 1
            if cache.get('evict_branch'):
                stats['evict_branch'] += 1
            if res.get('tree') != res.get('tree_fresh') and cache.get('diff_parse'):
                # the diff parser ran during this step and the tree differs from a from-scratch
                # parse: parso's promise is broken, the statement's precondition fails, skip.
                # (A differing tree WITHOUT a diff parse was not re-parsed incrementally at all -
                # e.g. a stale cached tree handed out as is - and is judged like any other step.)
                stats['diverged_trees'] += 1
                continue
            o = run_oracle(case, op)
            stats['oracle_runs'] += 1
            if not o.complete or not o.events:
                return {'verdict': 'harness_error', 'detail': {'oracle': True, 'rc': o.rc, 'to': o.timed_out,
                                                               'stderr': o.stderr[-1500:]}}
            ores = o.events[-1]['res']
            if res['script'] != ores['script']:
                problems.append(('script', {'op': i, 'got': res['script'], 'oracle': ores['script']}))
                continue
            for p, a, b in zip(op['probes'], res['probes'], ores['probes']):
                if is_exc(a, 'RecursionError') or is_exc(b, 'RecursionError'):
                    stats['inconclusive'] += 1
                    continue
                stats['compared'] += 1
                if sort_result(a) != sort_result(b):
                    if builtin_representative_differs(p, sort_result(a), sort_result(b)):
                        stats['c16_representative_excluded'] += 1      # listed C16 finding, not staleness
                        continue
                    # is the oracle itself stable?
                    o2 = run_oracle(case, dict(op, probes=[p]), hashseed=case.get('hashseed', 0) + 17)
                    stats['oracle_runs'] += 1
                    if o2.complete and o2.events and sort_result(o2.events[-1]['res']['probes'][0]) != sort_result(b):
                        stats['oracle_unstable'] += 1
                        continue
                    try:
                        ra = [json.dumps(x, sort_keys=True) for x in a] if not is_exc(a) else None
                        rb = [json.dumps(x, sort_keys=True) for x in b] if not is_exc(b) else None
                        subset = ra is not None and rb is not None and all(ra.count(x) >= rb.count(x) for x in rb)
                    except Exception:
                        subset = False
                    problems.append(('stale:%s' % p['m'], {'op': i, 'buf': op.get('buf'), 'probe': p,
                                                           'got': _short(a), 'oracle': _short(b),
                                                           'cache': cache, 'oracle_subset_of_got': subset}))
        st = dict(stats)
        st['digest'] = driver.events_digest(run.events)
        st['branches'] = sorted(map(repr, branches))
        st['sim_s'] = sim_ns / 1e9
        if problems:
            return {'verdict': 'violation', 'sig': problems[0][0],
                    'detail': {'problems': [[s, d] for s, d in problems[:3]], 'n': len(problems)}, 'stats': st}
        return {'verdict': 'ok', 'stats': st}

    def run(self, tier, seed, budget_s):
        n = 400 if tier == 'quick' else 20000
        return driver.run_cases('C08', (gen_case(seed, tier, i) for i in range(n)), budget_s=budget_s)

    def shrink(self, case, result):
        sig = result.get('sig')

        def fails(c):
            r = self.execute(c)
            return r['verdict'] == 'violation' and r.get('sig') == sig
        c = self.strip(case)
        # cut everything after the failing op first
        try:
            last = result['detail']['problems'][0][1]['op']
            cand = dict(c, ops=c['ops'][:last + 1])
            if fails(cand):
                c = cand
        except Exception:
            pass
        mc, _ = driver.ddmin_ops(c, 'ops', fails, budget=40)
        r = self.execute(mc)
        if r['verdict'] != 'violation':
            return c, self.execute(c)
        # fewer probes in the failing op
        try:
            j = r['detail']['problems'][0][1]['op']
            p = r['detail']['problems'][0][1]['probe']
            cand = json.loads(json.dumps(mc))
            cand['ops'][j]['probes'] = [p]
            for k, o in enumerate(cand['ops'][:j]):
                if o['op'] == 'query':
                    pass
            r2 = self.execute(cand)
            if r2['verdict'] == 'violation' and r2.get('sig') == sig:
                mc, r = cand, r2
        except Exception:
            pass
        return mc, r

    def coverage(self, pairs, tier):
        ev = 0
        tot = collections.Counter()
        nontrivial = set()
        branches = set()
        sim = 0.0
        samples = []
        for c, r in pairs:
            if r['verdict'] == 'harness_error':
                continue
            ev += 1
            st = r.get('stats', {})
            for k in ('steps', 'compared', 'oracle_runs', 'diff_parsed_steps', 'evict_branch', 'diverged_trees',
                      'inconclusive', 'oracle_unstable'):
                tot[k] += st.get(k, 0)
            sim += st.get('sim_s', 0)
            branches.update(st.get('branches', []))
            if st.get('diff_parsed_steps') and st.get('compared'):
                nontrivial.add(st['digest'])
            if len(samples) < 2:
                samples.append({'id': c['id'], 'knobs': c['knobs'],
                                'ops': [_brief(o) for o in c['ops']][:30], 'verdict': r['verdict']})
        return {
            'evaluations': ev,
            'distinct_nontrivial': len(nontrivial),
            'rule': 'one evaluation = one edit history executed in one long-lived subject with a pristine-process '
                    'oracle run per step; non-trivial = at least one step went through the diff parser (a cache '
                    'entry of an earlier version was reused) and was compared; distinct = distinct event-log digests',
            'samples': samples,
            'edit_steps': tot['steps'],
            'probe_results_compared': tot['compared'],
            'oracle_processes': tot['oracle_runs'],
            'steps_through_diff_parser': tot['diff_parsed_steps'],
            'eviction_branch_hits': tot['evict_branch'],
            'precondition_failed_diverged_trees': tot['diverged_trees'],
            'inconclusive_comparisons': tot['inconclusive'],
            'oracle_unstable_excluded': tot['oracle_unstable'],
            'distinct_state_signatures': len(branches),
            'state_signature': '(parso cache branches taken during the step, buffer path-less?)',
            'simulated_time_s': sim,
            'faults_fired_by_kind': {'clock_jump': 'see simulated_time_s', 'cache_eviction': tot['evict_branch']},
        }


def _brief(o):
    if o['op'] == 'query':
        return {'op': 'query', 'buf': o.get('buf'), 'path': o['path'], 'lines': (o.get('code') or '').count('\n'),
                'probes': o['probes'][:3]}
    return o


def _short(r):
    s = json.dumps(r)
    return s if len(s) < 500 else s[:500] + '...'


ENGINE = C08()
