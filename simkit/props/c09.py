"""
C09 - changes to project files on disk are always seen.

One case = a generated project + a seeded history of file-system mutations
(every mtime assigned by the simulator from a simulated file-system clock),
clock advances, host restarts (new interpreter, warm pickle directory, new
helper) and queries.  Oracle after every query: a pristine process with an
EMPTY cache directory on a copy of the current files.
"""
import collections
import json
import re

from simkit import base, driver, world
from simkit.canon import sort_result, is_exc, builtin_representative_differs

T0 = 1_500_000_000 * 10**9          # simulated now at subject start (seams.EPOCH_NS)
MS = 10**6
SEC = 10**9
TAG = re.compile(r'\b\w+_v\d+\b')


class FsModel:
    """driver-side mirror of what subject.do_fs does (content + stamps)"""

    def __init__(self):
        self.files = {}     # rel -> [content, mt]
        self.dirs = {}      # rel ('' = world root) -> mt or None

    def clone(self):
        m = FsModel()
        m.files = {k: list(v) for k, v in self.files.items()}
        m.dirs = dict(self.dirs)
        return m

    @staticmethod
    def parent(p):
        return p.rsplit('/', 1)[0] if '/' in p else ''

    def _mkparents(self, p):
        d = self.parent(p)
        while True:
            self.dirs.setdefault(d, None)
            if not d:
                break
            d = self.parent(d)

    def apply(self, op):
        kind, p = op['kind'], op['path']
        mt, dmt = op.get('mt'), op.get('dmt')
        if kind == 'write_zip':
            self._mkparents(p)
            self.files[p] = [{'__zip__': op['members']}, mt]
        elif kind in ('write', 'write_via_rename'):
            self._mkparents(p)
            self.files[p] = [op['content'], mt]
        elif kind == 'delete':
            if p in self.dirs:
                for f in [f for f in self.files if f.startswith(p + '/')]:
                    del self.files[f]
                for d in [d for d in self.dirs if d == p or d.startswith(p + '/')]:
                    del self.dirs[d]
            else:
                self.files.pop(p, None)
        elif kind == 'rename':
            dst = op['dst']
            self._mkparents(dst)
            if dst in self.dirs:
                self.apply({'kind': 'delete', 'path': dst})
            if p in self.files:
                self.files[dst] = self.files.pop(p)
                if mt is not None:
                    self.files[dst][1] = mt
            elif p in self.dirs:
                for f in [f for f in self.files if f.startswith(p + '/')]:
                    self.files[dst + f[len(p):]] = self.files.pop(f)
                for d in [d for d in list(self.dirs) if d == p or d.startswith(p + '/')]:
                    self.dirs[dst + d[len(p):]] = self.dirs.pop(d)
                if mt is not None:
                    self.dirs[dst] = mt
            if dmt not in (None, 'keep') and self.parent(dst) != self.parent(p):
                self.dirs[self.parent(dst)] = dmt
        elif kind == 'mkdir':
            self._mkparents(p + '/x')
            self.dirs[p] = mt
        elif kind == 'utime':
            if p in self.files:
                self.files[p][1] = mt
            elif p in self.dirs:
                self.dirs[p] = mt
        if dmt not in (None, 'keep') and self.parent(p) in self.dirs:
            self.dirs[self.parent(p)] = dmt

    def init_ops(self):
        ops = []
        for p, (c, mt) in sorted(self.files.items()):
            if isinstance(c, dict):
                ops.append({'op': 'fs', 'kind': 'write_zip', 'path': p, 'members': c['__zip__'], 'mt': mt})
            else:
                ops.append({'op': 'fs', 'kind': 'write', 'path': p, 'content': c, 'mt': mt})
        for d, mt in sorted(self.dirs.items(), key=lambda kv: -len(kv[0])):
            if d and not any(f.startswith(d + '/') for f in self.files):
                ops.append({'op': 'fs', 'kind': 'mkdir', 'path': d, 'mt': mt})
        for d, mt in sorted(self.dirs.items(), key=lambda kv: -len(kv[0])):
            if mt is not None:
                ops.append({'op': 'fs', 'kind': 'utime', 'path': d or '.', 'mt': mt})
        return ops


class Gen:
    """seeded history generator"""

    def __init__(self, rng, policy, tier):
        self.rng = rng
        self.policy = policy
        self.now = T0
        self.fsmax = T0 - 1000 * SEC
        self.ops = []
        self.mods = {}          # dotted -> {'kind', 'ver', 'shape', 'stub'}
        self.vers = collections.Counter()
        self.all_names = set()
        self.src = {}           # dotted -> current source text
        self.lib_names = []     # top-level names living under lib/ (a path entry that appears late)
        self.project = {'path': '.'}

    def base(self, dotted):
        b = dotted.replace('.', '/')
        return 'lib/' + b if dotted.split('.')[0] in self.lib_names else b

    # -- clocks -----------------------------------------------------------
    def advance(self, ns):
        self.ops.append({'op': 'advance', 'ns': ns})
        self.now += ns

    def stamp(self):
        """next file-system stamp according to the policy"""
        rng = self.rng
        pol = self.policy
        if pol == 'monotone':
            self.advance(rng.choice([MS, 5 * MS, 50 * MS, 300 * MS, 300 * MS, SEC, 3 * SEC, 700 * SEC, 86400 * SEC,
                                     40 * 86400 * SEC]))
            self.fsmax = self.now
            return self.now
        if pol == 'coarse':
            tick = self.tick
            self.advance(rng.choice([0, MS, 50 * MS, 400 * MS, 1100 * MS, 2500 * MS]))
            return (self.now // tick) * tick
        if pol == 'backward':
            self.advance(rng.choice([MS, SEC, 10 * SEC]))
            if rng.random() < 0.35:
                return self.now - rng.choice([1, 5, 3600]) * SEC
            return self.now
        if pol == 'skewed':
            # file server clock behind/ahead of the process clock by a constant
            self.advance(rng.choice([MS, SEC, 3 * SEC]))
            return self.now + self.skew
        raise ValueError(pol)

    # -- sources -----------------------------------------------------------
    def source(self, dotted, new_shape=True):
        self.vers[dotted] += 1
        ver = self.vers[dotted]
        m = self.mods.get(dotted)
        shape = None if (new_shape or not m) else m['shape']
        if shape is None:
            shape = world.gen_shape(self.rng)
        imports = []
        if '.' in dotted and self.rng.random() < 0.4:
            imports.append('from . import Klass as PkgKlass')
        src = world.gen_module_source(self.rng, dotted, ver, imports=imports, shape=shape)
        return src, ver, shape

    def stub_source(self, dotted):
        self.vers[dotted] += 1
        t = world.tag_of(dotted, self.vers[dotted])
        return ('class Klass:\n    sattr_%s: int\n    def method(self, s0_%s: int) -> str: ...\n'
                'def func(sx_%s: int) -> Klass: ...\nVALUE: Klass\nNUM: int\n' % (t, t, t))

    def path_of(self, dotted, kind):
        b = self.base(dotted)
        return b + '/__init__.py' if kind == 'package' else b + '.py'

    def fs(self, kind, path, **kw):
        op = {'op': 'fs', 'kind': kind, 'path': path}
        op.update(kw)
        self.ops.append(op)

    def dstamp(self, st):
        if self.policy != 'monotone' and self.rng.random() < 0.25:
            return 'keep'
        return st

    # -- mutations -----------------------------------------------------------
    def create(self, dotted, kind='module'):
        src, ver, shape = self.source(dotted)
        st = self.stamp()
        if kind == 'namespace':
            self.mods[dotted] = {'kind': 'namespace', 'ver': ver, 'shape': shape, 'stub': False}
            self.fs('mkdir', self.base(dotted), mt=st, dmt=self.dstamp(st))
        else:
            self.fs('write', self.path_of(dotted, kind), content=src, mt=st, dmt=self.dstamp(st))
            if kind == 'package':
                # the directory entry in the parent changed too
                self.fs('utime', self.base(dotted), mt=st, dmt=self.dstamp(st))
            self.mods[dotted] = {'kind': kind, 'ver': ver, 'shape': shape, 'stub': False}
        self.all_names.add(dotted)

    def overwrite(self, dotted, same_size):
        m = self.mods[dotted]
        if m['kind'] == 'namespace':
            return
        src, ver, shape = self.source(dotted, new_shape=not same_size)
        st = self.stamp()
        kind = 'write_via_rename' if self.rng.random() < 0.3 else 'write'
        dm = self.dstamp(st) if kind == 'write_via_rename' else None
        self.fs(kind, self.path_of(dotted, m['kind']), content=src, mt=st, dmt=dm)
        m.update(ver=ver, shape=shape)

    def delete(self, dotted):
        if self.mods[dotted].get('shadowed'):
            return self.unshadow(dotted)
        m = self.mods.pop(dotted)
        st = self.stamp()
        if m['kind'] in ('package', 'namespace'):
            self.fs('delete', self.base(dotted), dmt=self.dstamp(st))
            for k in [k for k in self.mods if k.startswith(dotted + '.')]:
                del self.mods[k]
        else:
            self.fs('delete', self.path_of(dotted, 'module'), dmt=self.dstamp(st))
            if m.get('stub'):
                self.fs('delete', self.base(dotted) + '.pyi', dmt=self.dstamp(st))

    def rename(self, dotted, new):
        if self.mods[dotted].get('shadowed'):
            return self.unshadow(dotted)
        m = self.mods.pop(dotted)
        st = self.stamp()
        # a rename keeps the file's old mtime: on a real file system that is what happens, and it is
        # exactly the non-monotone case; in the monotone regime the renamed entry is touched as well
        # (`mv` + `touch`), expressed by the op's own 'mt'
        extra = {'mt': st} if self.policy == 'monotone' else {}
        if m['kind'] == 'module':
            self.fs('rename', self.path_of(dotted, 'module'), dst=self.path_of(new, 'module'), dmt=self.dstamp(st), **extra)
            if m.get('stub'):
                self.fs('delete', self.base(dotted) + '.pyi', dmt=self.dstamp(st))
                m['stub'] = False
        else:
            self.fs('rename', self.base(dotted), dst=self.base(new), dmt=self.dstamp(st), **extra)
            for k in [k for k in list(self.mods) if k.startswith(dotted + '.')]:
                self.mods[new + k[len(dotted):]] = self.mods.pop(k)
                self.all_names.add(new + k[len(dotted):])
        self.mods[new] = m
        self.all_names.add(new)

    def to_package(self, dotted):
        m = self.mods[dotted]
        st = self.stamp()
        self.fs('delete', self.path_of(dotted, 'module'), dmt=self.dstamp(st))
        src, ver, shape = self.source(dotted)
        st = self.stamp()
        self.fs('write', self.path_of(dotted, 'package'), content=src, mt=st, dmt=self.dstamp(st))
        self.fs('utime', self.base(dotted), mt=st, dmt=self.dstamp(st))
        m.update(kind='package', ver=ver, shape=shape, stub=False)
        if self.rng.random() < 0.6:
            self.create(dotted + '.sa')

    def to_module(self, dotted):
        m = self.mods[dotted]
        if m.get('shadowed'):
            return self.unshadow(dotted)
        st = self.stamp()
        self.fs('delete', self.base(dotted), dmt=self.dstamp(st))
        for k in [k for k in self.mods if k.startswith(dotted + '.')]:
            del self.mods[k]
        src, ver, shape = self.source(dotted)
        st = self.stamp()
        self.fs('write', self.path_of(dotted, 'module'), content=src, mt=st, dmt=self.dstamp(st))
        m.update(kind='module', ver=ver, shape=shape)

    def shadow(self, dotted):
        """`mod/__init__.py` appears while `mod.py` stays where it is: the package wins the
        resolution from now on; removing the directory later makes the module visible again"""
        m = self.mods[dotted]
        if m['kind'] != 'module' or m.get('stub'):
            return
        old = dict(m)
        src, ver, shape = self.source(dotted)
        st = self.stamp()
        self.fs('write', self.path_of(dotted, 'package'), content=src, mt=st, dmt=self.dstamp(st))
        self.fs('utime', self.base(dotted), mt=st, dmt=self.dstamp(st))
        m.update(kind='package', ver=ver, shape=shape, shadowed=old)

    def unshadow(self, dotted):
        m = self.mods[dotted]
        old = m.get('shadowed')
        if not old:
            return
        st = self.stamp()
        self.fs('delete', self.base(dotted), dmt=self.dstamp(st))
        for k in [k for k in self.mods if k.startswith(dotted + '.')]:
            del self.mods[k]
        self.mods[dotted] = dict(old)

    def toggle_init(self, dotted):
        m = self.mods[dotted]
        if m.get('shadowed'):
            return self.unshadow(dotted)
        st = self.stamp()
        if m['kind'] == 'package':
            self.fs('delete', self.path_of(dotted, 'package'), dmt=self.dstamp(st))
            m['kind'] = 'namespace'
        else:
            src, ver, shape = self.source(dotted)
            self.fs('write', self.path_of(dotted, 'package'), content=src, mt=st, dmt=self.dstamp(st))
            m.update(kind='package', ver=ver, shape=shape)

    def rezip(self):
        """the archive on the search path is rebuilt with a changed member (member timestamps
        inside the archive stay fixed, as in reproducible builds; the archive file gets a new stamp)"""
        src, ver, shape = self.source('zm', new_shape=self.rng.random() < 0.5)
        self.mods['zm'].update(ver=ver, shape=shape)
        st = self.stamp()
        self.fs('write_zip', 'vendor.zip', members={'zm.py': {'text': src}}, mt=st)
        if self.rng.random() < 0.5:
            self.ops.append({'op': 'host_restart'})

    def toggle_stub(self, dotted):
        m = self.mods[dotted]
        if m['kind'] != 'module':
            return
        st = self.stamp()
        p = self.base(dotted) + '.pyi'
        if m.get('stub'):
            self.fs('delete', p, dmt=self.dstamp(st))
            m['stub'] = False
        else:
            self.fs('write', p, content=self.stub_source(dotted), mt=st, dmt=self.dstamp(st))
            m['stub'] = True

    def older_rename_onto(self, dotted):
        """a file with an OLDER mtime is renamed onto the module (restore from backup)"""
        m = self.mods[dotted]
        if m['kind'] == 'namespace':
            return
        src, ver, shape = self.source(dotted)
        old = self.fsmax - self.rng.choice([1, 50, 5000]) * SEC if self.policy != 'monotone' else self.stamp()
        self.fs('write_via_rename', self.path_of(dotted, m['kind']), content=src, mt=old,
                dmt=self.dstamp(self.stamp() if self.policy != 'monotone' else old))
        m.update(ver=ver, shape=shape)

    def touch(self, dotted):
        m = self.mods[dotted]
        if m['kind'] == 'namespace':
            return
        self.fs('utime', self.path_of(dotted, m['kind']), mt=self.stamp())

    def burst(self, dotted):
        """the same module rewritten several times in quick succession (formatter, save-on-type):
        same size, stamps a few milliseconds apart, a query after each rewrite"""
        for _ in range(self.rng.randint(2, 3)):
            m = self.mods.get(dotted)
            if not m or m['kind'] == 'namespace':
                return
            src, ver, shape = self.source(dotted, new_shape=False)
            if self.policy == 'monotone':
                self.advance(self.rng.choice([2 * MS, 7 * MS, 40 * MS, 150 * MS]))
                st = self.fsmax = self.now
            else:
                st = self.stamp()
            self.fs('write', self.path_of(dotted, m['kind']), content=src, mt=st)
            m.update(ver=ver, shape=shape)
            self.query()

    def mutate(self):
        rng = self.rng
        tops = [d for d in self.mods if '.' not in d]
        subs = [d for d in self.mods if '.' in d]
        free_top = [n for n in world.TOP + world.PKG + self.lib_names if n not in self.mods]
        r = rng.random()
        allmods = [d for d in self.mods if d != 'zm']
        if 'zm' in self.mods and r < 0.08:
            return self.rezip()
        tops = [d for d in tops if d != 'zm']
        shadowed = [d for d in tops if self.mods[d].get('shadowed')]
        plain = [d for d in tops if self.mods[d]['kind'] == 'module' and not self.mods[d].get('stub')]
        if r < 0.05 and (shadowed or plain):
            if shadowed and (not plain or rng.random() < 0.5):
                self.unshadow(rng.choice(shadowed))
            else:
                self.shadow(rng.choice(plain))
        elif r < 0.10 and allmods:
            self.burst(rng.choice(allmods))
        elif r < 0.22 and allmods:
            self.overwrite(rng.choice(allmods), same_size=rng.random() < 0.6)
        elif r < 0.34 and free_top:
            n = rng.choice(free_top)
            kind = rng.choice(['module', 'module', 'package', 'namespace'])
            self.create(n, kind)
            if kind != 'module' and rng.random() < 0.7:
                self.create(n + '.' + rng.choice(world.SUB))
        elif r < 0.44 and allmods:
            self.delete(rng.choice(allmods))
        elif r < 0.52 and [t for t in tops if t not in self.lib_names] and \
                [t for t in free_top if t not in self.lib_names]:
            self.rename(rng.choice([t for t in tops if t not in self.lib_names]),
                        rng.choice([t for t in free_top if t not in self.lib_names]))
        elif r < 0.60 and [d for d in tops if self.mods[d]['kind'] == 'module']:
            self.to_package(rng.choice([d for d in tops if self.mods[d]['kind'] == 'module']))
        elif r < 0.67 and [d for d in tops if self.mods[d]['kind'] == 'package']:
            self.to_module(rng.choice([d for d in tops if self.mods[d]['kind'] == 'package']))
        elif r < 0.75 and [d for d in tops if self.mods[d]['kind'] in ('package', 'namespace')]:
            self.toggle_init(rng.choice([d for d in tops if self.mods[d]['kind'] in ('package', 'namespace')]))
        elif r < 0.82 and [d for d in allmods if self.mods[d]['kind'] == 'module']:
            self.toggle_stub(rng.choice([d for d in allmods if self.mods[d]['kind'] == 'module']))
        elif r < 0.88 and [d for d in tops if self.mods[d]['kind'] in ('package', 'namespace')]:
            p = rng.choice([d for d in tops if self.mods[d]['kind'] in ('package', 'namespace')])
            s = p + '.' + rng.choice(world.SUB)
            if s in self.mods:
                self.overwrite(s, same_size=rng.random() < 0.5)
            else:
                self.create(s)
        elif r < 0.94 and allmods:
            self.older_rename_onto(rng.choice(allmods))
        elif allmods:
            self.touch(rng.choice(allmods))

    def query(self):
        rng = self.rng
        names = sorted(self.all_names)
        last = getattr(self, 'last_query', None)
        if last is not None and rng.random() < 0.45 and not getattr(self, 'force_crowd', False):
            # the very same buffer is asked again (an editor re-queries an unchanged file after
            # the project changed underneath it): same text, same path, same positions
            import json as _json
            op = _json.loads(_json.dumps(last))
            if self.policy == 'monotone' or rng.random() < 0.5:
                self.advance(rng.choice([0, MS, 20 * MS, SEC, 4 * SEC]))
            self.ops.append(op)
            return
        b = world.gen_probe_buffer(rng, names, max_probes=rng.randint(3, 7))
        op = {'op': 'query', 'code': b.text, 'path': None if rng.random() < 0.4 else 'probe_buf.py',
              'project': self.project, 'probes': b.probes}
        dirs_now = [d for d in self.mods if '.' not in d and self.mods[d]['kind'] in ('package', 'namespace')
                    and d not in self.lib_names]
        if dirs_now and rng.random() < 0.25:
            # the buffer lives INSIDE a directory that is a package or a plain (namespace) directory: which
            # names `import ...` offers there depends on whether __init__.py exists right now
            d = rng.choice(dirs_now)
            op['path'] = '%s/inner_buf.py' % d
            lines = op['code'].split('\n')
            lines.insert(len(lines) - 1, 'import s')
            op['code'] = '\n'.join(lines)
            ln = len(lines) - 1
            for p_ in op['probes']:
                if p_.get('l') == ln:
                    p_['l'] = ln + 1
            op['probes'].append({'m': 'complete', 'l': ln, 'c': 8})
        if rng.random() < 0.12 or getattr(self, 'force_crowd', False):
            # many tabs showing this text are open while it is asked about, and closed together
            op['crowd'] = rng.randint(11, 16)
        self.last_query = op
        # the project-wide file scan (get_references, rename, Project.search) reads files on its own
        tops_now = [d for d in self.mods if '.' not in d and self.mods[d]['kind'] != 'namespace']
        if tops_now and rng.random() < 0.6:
            m = rng.choice(tops_now)
            lines = b.text.split('\n')
            if ('import %s' % m) in lines:
                lines.insert(len(lines) - 1, '%s.func(1)' % m)
                op['code'] = '\n'.join(lines)
                # the inserted line is the last but one; positions of earlier probes are unchanged
                # unless the buffer ended in an incomplete statement (then it moved down by one)
                ln = len(lines) - 1
                for p in op['probes']:
                    if p.get('l') == ln:
                        p['l'] = ln + 1
                op['probes'].append({'m': 'get_references', 'l': ln, 'c': len(m) + 2})
        if self.policy == 'monotone' or rng.random() < 0.5:
            self.advance(rng.choice([0, MS, 20 * MS, SEC, 4 * SEC]))
        self.ops.append(op)
        if rng.random() < 0.4:
            # names that exist only in the CURRENT version of a module are the sharpest probes
            cands = ['func', 'Klass', 'VALUE']
            for d, m in self.mods.items():
                if m['kind'] != 'namespace':
                    t = world.tag_of(d, m['ver'])
                    cands += ['NAME_%s' % t, 'NAME_%s' % t]
                    if m['shape'].get('extra_fn'):
                        cands.append('fn_%s' % t)
            self.ops.append({'op': 'project_search', 'q': rng.choice(cands),
                             'all_scopes': rng.random() < 0.5, 'project': self.project,
                             'complete': rng.random() < 0.2})


def gen_case(seed, tier, i):
    rng = driver.rng_for(seed, 'C09', tier, 'case', i)
    if tier == 'quick':
        policy = 'monotone' if rng.random() < 0.85 else rng.choice(['coarse', 'backward', 'skewed'])
    else:
        policy = rng.choice(['monotone', 'monotone', 'monotone', 'coarse', 'backward', 'skewed'])
    g = Gen(rng, policy, tier)
    g.tick = rng.choice([SEC, 2 * SEC])
    g.skew = rng.choice([-7200, -2, 2, 3600]) * SEC
    # initial world, stamped well before the first query
    model = FsModel()
    n_top = rng.randint(2, 4)
    st0 = T0 - 5000 * SEC
    for j, n in enumerate(world.TOP[:n_top]):
        src, ver, shape = g.source(n)
        model.apply({'kind': 'write', 'path': n + '.py', 'content': src, 'mt': st0 + j * SEC, 'dmt': st0 + j * SEC})
        g.mods[n] = {'kind': 'module', 'ver': ver, 'shape': shape, 'stub': False}
        g.all_names.add(n)
    if rng.random() < 0.6:
        src, ver, shape = g.source('pa')
        model.apply({'kind': 'write', 'path': 'pa/__init__.py', 'content': src, 'mt': st0 + 10 * SEC, 'dmt': st0 + 10 * SEC})
        g.mods['pa'] = {'kind': 'package', 'ver': ver, 'shape': shape, 'stub': False}
        src, ver, shape = g.source('pa.sa')
        model.apply({'kind': 'write', 'path': 'pa/sa.py', 'content': src, 'mt': st0 + 11 * SEC, 'dmt': st0 + 11 * SEC})
        g.mods['pa.sa'] = {'kind': 'module', 'ver': ver, 'shape': shape, 'stub': False}
        model.dirs[''] = st0 + 11 * SEC
        g.all_names.update(['pa', 'pa.sa'])
    if rng.random() < 0.2:
        # a sys.path entry that does not exist yet when the first query runs
        g.lib_names = ['la', 'lb']
        g.project = {'path': '.', 'added_sys_path': ['lib']}
        g.all_names.update(g.lib_names)
    if rng.random() < 0.25:
        # a module that lives inside a zip archive on the project's search path
        src, ver, shape = g.source('zm')
        model.apply({'kind': 'write_zip', 'path': 'vendor.zip', 'members': {'zm.py': {'text': src}}, 'mt': st0 + 20 * SEC})
        g.mods['zm'] = {'kind': 'zipmodule', 'ver': ver, 'shape': shape, 'stub': False}
        g.all_names.add('zm')
        g.project = dict(g.project, added_sys_path=list(g.project.get('added_sys_path') or []) + ['vendor.zip'])
    # names the buffers may refer to before they exist
    for n in rng.sample(world.TOP + world.PKG, 2):
        g.all_names.add(n)
    init = model.init_ops()
    knob = rng.choice([1, 2, 8, 600, 600])
    g.ops.append({'op': 'knob', 'name': 'cached_size_trigger', 'value': knob})
    max_ops = 10 if tier == 'quick' else 25
    n_mut = rng.randint(2, max_ops)
    g.query()
    if rng.random() < 0.05:
        # "tab storm": rounds of (a module is rewritten, many Scripts on the same text are alive at once
        # and discarded together) - what is left behind by Scripts that were finalised in one large
        # batch meets objects that are created at the same addresses later
        g.force_crowd = True
        tops_now = [d for d in g.mods if '.' not in d and g.mods[d]['kind'] == 'module']
        for _ in range(rng.randint(8, 12)):
            if tops_now and rng.random() < 0.8:
                m = rng.choice(tops_now)
                g.overwrite(m, rng.random() < 0.3)
                g.advance(rng.choice([MS, 20 * MS, SEC, 4 * SEC]))
                # every tab looks at the module that has just been rewritten
                g.ops.append({'op': 'query', 'code': 'import %s\n%s.\n%s.func(\n' % (m, m, m), 'path': 'probe_buf.py',
                              'project': g.project, 'crowd': rng.randint(11, 16),
                              'probes': [{'m': 'complete', 'l': 2, 'c': len(m) + 1},
                                         {'m': 'get_signatures', 'l': 3, 'c': len(m) + 6}]})
            else:
                g.query()
        g.force_crowd = False
        n_mut = min(n_mut, 3)
    free_pkg = [n for n in world.PKG + world.TOP if n not in g.mods and n not in g.lib_names]
    if free_pkg and rng.random() < 0.12:
        # a new package is typed before it is saved: the buffer is the future <pkg>/__init__.py (its
        # directory does not exist yet) and already refers to a sub-module; then directory, __init__.py
        # and the sub-module are written; from then on everything inside the package must be found
        P = rng.choice(free_pkg)
        code0 = 'from .sa import func as rel_f\nrel_f(1)\nfrom . import sa\nsa.func\n'
        q0 = {'op': 'query', 'code': code0, 'path': '%s/__init__.py' % P, 'project': g.project,
              'probes': [{'m': 'get_signatures', 'l': 2, 'c': 6}, {'m': 'complete', 'l': 4, 'c': 3},
                         {'m': 'infer', 'l': 4, 'c': 5}]}
        g.ops.append(q0)
        g.advance(rng.choice([SEC, 4 * SEC, 61 * SEC]))
        g.create(P, 'package')
        g.create(P + '.sa')
        g.advance(rng.choice([MS, SEC, 4 * SEC]))
        g.ops.append({'op': 'query', 'path': 'probe_buf.py', 'project': g.project,
                      'code': 'from %s.sa import func as f2\nf2(1)\nimport %s.sa\n%s.sa.func\nfrom %s import sa as s3\ns3.\n' % (P, P, P, P),
                      'probes': [{'m': 'get_signatures', 'l': 2, 'c': 3}, {'m': 'infer', 'l': 4, 'c': len(P) + 6},
                                 {'m': 'complete', 'l': 6, 'c': 3},
                                 {'m': 'goto', 'l': 4, 'c': len(P) + 6, 'kw': {'follow_imports': True}}]})
    for _ in range(n_mut):
        r = rng.random()
        if r < 0.55:
            g.mutate()
            if rng.random() < 0.75:
                g.query()
        elif r < 0.70:
            g.ops.append({'op': 'host_restart'})
            g.query()
        elif r < 0.80:
            g.advance(rng.choice([SEC, 601 * SEC, 86400 * SEC, 31 * 86400 * SEC]))
        elif r < 0.85:
            g.ops.append({'op': 'gc'})
        else:
            g.query()
    if g.ops[-1]['op'] not in ('query', 'project_search'):
        g.query()
    procs = 2 if rng.random() < 0.3 else 1
    if procs > 1:
        # two editor processes share the project and the pickle directory
        for o in g.ops:
            if o['op'] in ('query', 'project_search', 'host_restart', 'gc'):
                o['proc'] = rng.randrange(procs)
    return {'id': 'c09-%d' % i, 'init': init, 'ops': g.ops, 'policy': policy, 'hashseed': rng.randint(0, 2),
            'knob': knob, 'procs': procs}


def witness_cases():
    """directed histories for the listed timestamp findings (and their monotone twins)"""
    import random
    rng = random.Random(1)
    shape = world.gen_shape(rng)
    v1 = world.gen_module_source(rng, 'ma', 1, shape=shape)
    v2 = world.gen_module_source(rng, 'ma', 2, shape=shape)
    mb = world.gen_module_source(rng, 'mb', 1, shape=shape)
    st0 = T0 - 5000 * SEC
    init = [{'op': 'fs', 'kind': 'write', 'path': 'ma.py', 'content': v1, 'mt': st0},
            {'op': 'fs', 'kind': 'utime', 'path': '.', 'mt': st0}]
    code = 'import ma\nimport mb\nma.func(1)\nmb.func(1)\nma.Klass().method\n'
    probes = [{'m': 'get_signatures', 'l': 3, 'c': 8}, {'m': 'get_signatures', 'l': 4, 'c': 8},
              {'m': 'complete', 'l': 5, 'c': 11}, {'m': 'infer', 'l': 2, 'c': 8}]
    q = {'op': 'query', 'code': code, 'path': None, 'project': {'path': '.'}, 'probes': probes}
    for name, mt2, dmt in (('same-mtime-overwrite', st0, None), ('monotone-overwrite', T0 + SEC, None)):
        yield {'id': 'w:' + name, 'init': init, 'policy': 'witness', 'hashseed': 0, 'ops': [
            q, {'op': 'advance', 'ns': 2 * SEC},
            {'op': 'fs', 'kind': 'write', 'path': 'ma.py', 'content': v2, 'mt': mt2}, q,
            {'op': 'host_restart'}, q]}
    v3 = world.gen_module_source(rng, 'ma', 3, shape=shape)
    yield {'id': 'w:same-second-same-size-monotone', 'init': init, 'policy': 'witness', 'hashseed': 0, 'ops': [
        q, {'op': 'advance', 'ns': 100 * MS},
        {'op': 'fs', 'kind': 'write', 'path': 'ma.py', 'content': v2, 'mt': T0 + 100 * MS},
        {'op': 'advance', 'ns': 50 * MS}, q, {'op': 'advance', 'ns': 100 * MS},
        {'op': 'fs', 'kind': 'write', 'path': 'ma.py', 'content': v3, 'mt': T0 + 250 * MS},
        {'op': 'advance', 'ns': 50 * MS}, q]}
    # a module inside an archive, rebuilt between two host processes that share the pickle directory
    z1 = world.gen_module_source(rng, 'zm', 1, shape=shape)
    z2 = world.gen_module_source(rng, 'zm', 2, shape=world.gen_shape(rng))
    zinit = init + [{'op': 'fs', 'kind': 'write_zip', 'path': 'vendor.zip', 'mt': st0, 'members': {'zm.py': {'text': z1}}}]
    zcode = 'import zm\nzm.func(1)\nzm.Klass().method\n'
    zq = {'op': 'query', 'code': zcode, 'path': None, 'project': {'path': '.', 'added_sys_path': ['vendor.zip']},
          'probes': [{'m': 'get_signatures', 'l': 2, 'c': 8}, {'m': 'complete', 'l': 3, 'c': 11}, {'m': 'infer', 'l': 1, 'c': 8}]}
    yield {'id': 'w:zip-rebuilt-between-processes', 'init': zinit, 'policy': 'witness', 'hashseed': 0, 'ops': [
        zq, {'op': 'advance', 'ns': 5 * SEC},
        {'op': 'fs', 'kind': 'write_zip', 'path': 'vendor.zip', 'mt': T0 + 5 * SEC, 'members': {'zm.py': {'text': z2}}},
        {'op': 'advance', 'ns': SEC}, {'op': 'host_restart'}, zq]}
    for name, dmt in (('create-dir-mtime-kept', 'keep'), ('create-dir-mtime-bumped', T0 + SEC)):
        yield {'id': 'w:' + name, 'init': init, 'policy': 'witness', 'hashseed': 0, 'ops': [
            q, {'op': 'advance', 'ns': 2 * SEC},
            {'op': 'fs', 'kind': 'write', 'path': 'mb.py', 'content': mb, 'mt': T0 + SEC, 'dmt': dmt}, q]}


# ---------------------------------------------------------------------------

def monotone_restamp(case, files=True, dirs=True):
    """counterfactual: the same history with strictly increasing stamps"""
    c = json.loads(json.dumps(case))
    now = T0
    out = []
    fsmax = T0
    for op in c['ops']:
        if op['op'] == 'advance':
            if op['ns'] < 0:
                op['ns'] = 0
            now += op['ns']
            out.append(op)
            continue
        if op['op'] == 'fs':
            out.append({'op': 'advance', 'ns': 2 * MS})
            now += 2 * MS
            st = max(now, fsmax + MS)
            if st > now:
                out.append({'op': 'advance', 'ns': st - now})
                now = st
            fsmax = st
            if files and op['kind'] != 'delete':
                op['mt'] = st
            if dirs and (op['kind'] in ('write', 'write_via_rename', 'delete', 'rename', 'mkdir') or 'dmt' in op):
                # every op that stamps the parent directory (also a utime that carries a dmt)
                op['dmt'] = st
            out.append(op)
            continue
        out.append(op)
    c['ops'] = out
    c['policy'] = 'restamped'
    return c


def is_monotone(case):
    """sufficient condition for the regime in which the property must hold
    without exception: every stamp strictly greater than every earlier stamp
    and than the process clock at every earlier query, never in the future,
    directory stamps always given"""
    now = T0
    fsmax = None
    last_query = None
    for op in case['ops']:
        if op['op'] == 'advance':
            if op['ns'] < 0:
                return False
            now += op['ns']
        elif op['op'] in ('query', 'project_search'):
            last_query = now
        elif op['op'] == 'fs':
            mt = op.get('mt')
            for s in ([mt] if op['kind'] != 'delete' else []) + \
                    ([op.get('dmt')] if op['kind'] in ('write_via_rename', 'delete', 'mkdir', 'rename') or
                     (op['kind'] == 'write') else []):
                if s is None and op['kind'] == 'write':
                    continue    # plain overwrite of an existing file does not touch the directory
                if s is None or s == 'keep':
                    return False
                if s > now:
                    return False
                if last_query is not None and s <= last_query:
                    return False
                if fsmax is not None and s < fsmax:
                    return False
            if mt is not None:
                fsmax = mt if fsmax is None else max(fsmax, mt)
    return True


def run_segments(case):
    """execute the history; host_restart ops split it into successive interpreters"""
    root = driver.new_root('c09')
    try:
        ops = case['ops']
        cuts = [i for i, o in enumerate(ops) if o['op'] == 'host_restart'] + [len(ops)]
        events = []
        start = 0
        seg = 0
        for cut in cuts:
            if cut > start:
                spec = {'init': case['init'], 'ops': ops, 'start': start, 'end': cut, 'inv': ['sentinel', 'host']}
                r = driver.run_subject(spec, root, hashseed=case.get('hashseed', 0), timeout=110, seg=str(seg))
                if not r.complete:
                    return None, r
                events += r.events
            if cut < len(ops):
                events.append({'i': cut, 'op': 'host_restart', 'res': 'ok'})
            start = cut + 1
            seg += 1
        return events, None
    finally:
        driver.rm_root(root)


class _Bad:
    def __init__(self, why, stderr=''):
        self.rc, self.timed_out, self.stderr = why, why == 'timeout', stderr


def run_multi(case):
    """two (or more) host processes alive at the same time, sharing the project files and the
    pickle cache directory but nothing else (own in-memory caches, own helper): ops carry the
    process that executes them; clock advances and knobs go to every process; file-system ops
    are executed once (the disk is shared)"""
    root = driver.new_root('c09m')
    subs = {}
    shared = []         # knob/advance ops so far: process-local state a late starter must rebuild
    started_any = [False]
    seg = [0]

    def get(p):
        if p not in subs:
            spec = {'init': [] if started_any[0] else case['init'], 'ops': list(shared), 'start': 0,
                    'inv': ['sentinel', 'host']}
            subs[p] = driver.InteractiveSubject(spec, root, hashseed=case.get('hashseed', 0), seg='p%d-%d' % (p, seg[0]))
            seg[0] += 1
            started_any[0] = True
        return subs[p]
    events = []
    try:
        get(0)
        for i, op in enumerate(case['ops']):
            k = op['op']
            if k in ('advance', 'knob'):
                ev = None
                for p in sorted(subs):
                    ev = subs[p].step(op)
                    if ev is None:
                        return None, _Bad(subs[p].failed, subs[p].close())
                shared.append(op)
                events.append(ev or {'i': i, 'op': k, 'res': 'ok'})
            elif k == 'host_restart':
                p = op.get('proc', 0)
                if p in subs:
                    subs.pop(p).close()
                events.append({'i': i, 'op': k, 'res': 'ok'})
            else:
                p = 0 if k == 'fs' else op.get('proc', 0)
                if k == 'fs' and 0 not in subs:
                    p = sorted(subs)[0] if subs else 0
                sub = get(p)
                ev = sub.step(op)
                if ev is None:
                    return None, _Bad(sub.failed, sub.close())
                events.append(ev)
        return events, None
    finally:
        for sub in subs.values():
            sub.close()
        driver.rm_root(root)


def run_oracle(case, model, op, hashseed):
    root = driver.new_root('c09o')
    try:
        spec = {'init': model.init_ops(), 'ops': [op]}
        return driver.run_subject(spec, root, hashseed=hashseed, timeout=100)
    finally:
        driver.rm_root(root)


def judge(case):
    stats = collections.Counter()
    ops = case['ops']
    events, bad = run_multi(case) if case.get('procs', 1) > 1 else run_segments(case)
    if events is None:
        return {'verdict': 'harness_error', 'detail': {'rc': bad.rc, 'to': bad.timed_out, 'stderr': bad.stderr[-1500:]}}
    if len(events) != len(ops):
        return {'verdict': 'harness_error', 'detail': {'why': 'event count', 'n': [len(ops), len(events)]}}
    model = FsModel()
    for op in case['init']:
        model.apply(op)
    problems = []
    mutated_since_query = False
    restarted = False
    sim = 0
    sigs = set()
    proc_started = {}       # proc -> index of the first op it executed in its current life
    last_zip_write = None
    for i, (op, ev) in enumerate(zip(ops, events)):
        k = op['op']
        if k == 'host_restart':
            proc_started.pop(op.get('proc', 0), None)
        elif k in ('query', 'project_search', 'gc'):
            proc_started.setdefault(op.get('proc', 0), i)
        if k == 'fs' and op['kind'] == 'write_zip':
            last_zip_write = i
        if k == 'fs':
            model.apply(op)
            mutated_since_query = True
            stats['mutations'] += 1
            stats['mut:' + op['kind']] += 1
        elif k == 'advance':
            sim += abs(op['ns'])
        elif k == 'host_restart':
            restarted = True
            stats['host_restarts'] += 1
        elif k in ('query', 'project_search'):
            if ev.get('inv_bad'):
                # host-state / sentinel anomalies are C12's business: counted, not judged here
                stats['c12_invariant_anomalies'] += 1
            cache = ev.get('cache') or {}
            if cache.get('pickle_hit'):
                stats['pickle_hits'] += cache['pickle_hit']
            if cache.get('evict_branch'):
                stats['evict_branch'] += 1
            sigs.add((tuple(sorted(cache)), mutated_since_query, restarted, op.get('proc', 0)))
            if case.get('procs', 1) > 1:
                stats['queries_in_multi_process_histories'] += 1
            o = run_oracle(case, model, op, case.get('hashseed', 0))
            stats['oracle_runs'] += 1
            if not o.complete or len(o.events) != 1:
                return {'verdict': 'harness_error', 'detail': {'oracle': True, 'rc': o.rc, 'to': o.timed_out,
                                                               'stderr': o.stderr[-1500:]}}
            ores = o.events[0]['res']
            res = ev['res']
            if k == 'query':
                if res['script'] != ores['script']:
                    problems.append(('script', {'op': i, 'got': res['script'], 'oracle': ores['script']}))
                    continue
                pairs = list(zip(op['probes'], res['probes'], ores['probes']))
                for got_j, want_j in zip(res.get('crowd') or [], ores.get('crowd') or []):
                    pairs += list(zip(op['probes'][:2], got_j, want_j))
                    stats['crowd_scripts'] += 1
            else:
                pairs = [({'m': 'project_search', 'q': op['q']}, res, ores)]
            for p, a, b in pairs:
                if is_exc(a, 'RecursionError') or is_exc(b, 'RecursionError'):
                    stats['inconclusive'] += 1
                    continue
                stats['compared'] += 1
                if mutated_since_query:
                    stats['compared_after_mutation'] += 1
                if sort_result(a) != sort_result(b):
                    if builtin_representative_differs(p, sort_result(a), sort_result(b)):
                        stats['c16_representative_excluded'] += 1      # listed C16 finding, not staleness
                        continue
                    blob = json.dumps(a) + json.dumps(b)
                    if k == 'query' and p.get('l') and op.get('code'):
                        src_lines = op['code'].split('\n')
                        if 0 < p['l'] <= len(src_lines):
                            ltxt = src_lines[p['l'] - 1]
                            star = 'from zm import *' in op['code'] and \
                                ltxt.strip().startswith(('func(', 'Klass', 'VALUE', 'NAM'))
                            if 'zm' in ltxt or star:
                                blob += ' zm_v(probe line refers to the archive module)'
                    zipcache = (last_zip_write is not None and
                                proc_started.get(op.get('proc', 0), i) < last_zip_write and
                                ('vendor.zip' in blob or 'zm_v' in blob or
                                 # garbled member data (stale zip directory, new bytes) surfaces as an exception of
                                 # ANY query of a buffer that imports the archive's module, e.g. a reference
                                 # search that follows every import of the buffer
                                 (is_exc(a) and not is_exc(b) and k == 'query' and
                                  re.search(r'\bzm\b', op.get('code') or '') is not None)))
                    ta, tb = set(TAG.findall(json.dumps(a))), set(TAG.findall(json.dumps(b)))
                    problems.append(('stale:%s%s' % (p['m'], '@zipcache' if zipcache else ''), {
                        'op': i, 'probe': p, 'stale_names': sorted(ta - tb)[:6], 'missed_names': sorted(tb - ta)[:6],
                        'got': _short(a), 'oracle': _short(b), 'cache': cache,
                        'after_restart': restarted}))
            mutated_since_query = False
            restarted = False
    st = dict(stats)
    st['digest'] = driver.events_digest(events)
    st['sim_s'] = sim / 1e9
    st['sigs'] = sorted(map(repr, sigs))
    st['policy'] = case.get('policy')
    st['monotone'] = is_monotone(case)
    if problems:
        return {'verdict': 'violation', 'sig': problems[0][0] + ('' if st['monotone'] else '|nonmonotone'),
                'detail': {'problems': [[s, d] for s, d in sorted(problems, key=lambda q: q[0].endswith('@zipcache'))[:12]], 'n': len(problems),
                           'all_sigs': sorted({q[0] for q in problems}),
                           'monotone': st['monotone'], 'policy': case.get('policy')}, 'stats': st}
    return {'verdict': 'ok', 'stats': st}


class C09(base.Engine):
    pid = 'C09'
    level = 'exploration'
    technique = 'deterministic simulation: seeded file-system histories with simulator-assigned mtimes (monotone / coarse / backward / skewed clocks), host restarts on a warm pickle cache; pristine-process empty-cache oracle; counterfactual replay for timestamp findings'
    budgets = (70, 1500)
    assumptions = [
        'mutations never land inside a query (the read-then-stat window in parso is out of scope)',
        'torn pickles of a writer killed mid-write are not injected',
        'the kernel file system is real; every mtime/atime the code can observe under the world and cache roots is assigned by the simulator',
        'results are compared per probe as sorted multisets; RecursionError inconclusive',
    ]
    components = {
        'real': ['jedi', 'parso incl. pickle cache', 'helper process incl. importlib finder caches', 'kernel file system (tmpfs)'],
        'simulated': ['time.time() seen by jedi.cache/parso.cache', 'every file and directory mtime/atime', 'host process restarts', 'parso cache size trigger'],
        'stubbed': [],
    }

    def execute(self, case):
        driver.begin_case(case)
        return judge(case)

    def run(self, tier, seed, budget_s):
        n = 400 if tier == 'quick' else 20000

        def cases():
            yield from witness_cases()
            for i in range(n):
                yield gen_case(seed, tier, i)
        return driver.run_cases('C09', cases(), budget_s=budget_s)

    def shrink(self, case, result):
        sig = result.get('sig')

        def fails(c):
            r = self.execute(c)
            return r['verdict'] == 'violation' and r.get('sig') == sig
        c = self.strip(case)
        try:
            last = result['detail']['problems'][0][1]['op']
            cand = dict(c, ops=c['ops'][:last + 1])
            if fails(cand):
                c = cand
        except Exception:
            pass
        mc, _ = driver.ddmin_ops(c, 'ops', fails, budget=40)
        r = self.execute(mc)
        if r['verdict'] != 'violation':
            return c, self.execute(c)
        return mc, r

    def known_match(self, case, result, known):
        """non-monotone histories only: counterfactual replay decides"""
        ks = {k['id']: k for k in known['findings'] if k.get('property') == 'C09'}
        probs = (result.get('detail') or {}).get('problems') or []
        n = (result.get('detail') or {}).get('n', 0)
        sigs = (result.get('detail') or {}).get('all_sigs') or [p[0] for p in probs]
        if sigs and all(x.endswith('@zipcache') for x in sigs):
            return ks.get('C09-zip-archive-rebuilt')
        if any(x.endswith('@zipcache') for x in sigs):
            return None     # mixed with something else: report
        if (result.get('detail') or {}).get('monotone', True):
            return None
        if not ks:
            return None
        cache = getattr(self, '_cf_cache', None)
        if cache is None:
            cache = self._cf_cache = {}
        key = json.dumps(self.strip(case), sort_keys=True)
        if key not in cache:
            both = self.execute(monotone_restamp(case, True, True))
            if both['verdict'] != 'ok':
                cache[key] = None
            else:
                only_files = self.execute(monotone_restamp(case, True, False))
                if only_files['verdict'] == 'ok':
                    cache[key] = 'C09-file-mtime-not-increased'
                else:
                    only_dirs = self.execute(monotone_restamp(case, False, True))
                    cache[key] = 'C09-dir-mtime-not-changed' if only_dirs['verdict'] == 'ok' \
                        else 'C09-file-mtime-not-increased'
        return ks.get(cache[key]) if cache[key] else None

    def coverage(self, pairs, tier):
        ev = 0
        tot = collections.Counter()
        nontrivial = set()
        sigs = set()
        pol = collections.Counter()
        sim = 0.0
        samples = []
        for c, r in pairs:
            if r['verdict'] == 'harness_error':
                continue
            ev += 1
            st = r.get('stats', {})
            for k, v in st.items():
                if isinstance(v, int) and not isinstance(v, bool):
                    tot[k] += v
            sim += st.get('sim_s', 0)
            sigs.update(st.get('sigs', []))
            pol[st.get('policy')] += 1
            if st.get('monotone'):
                tot['monotone_histories'] += 1
            if st.get('compared_after_mutation'):
                nontrivial.add(st['digest'])
            if len(samples) < 2:
                samples.append({'id': c['id'], 'policy': c['policy'], 'ops': [_brief(o) for o in c['ops']][:30],
                                'verdict': r['verdict']})
        return {
            'evaluations': ev,
            'distinct_nontrivial': len(nontrivial),
            'rule': 'one evaluation = one file-system history executed by successive subject interpreters sharing '
                    'the cache directory, with a pristine empty-cache oracle process per query; non-trivial = at '
                    'least one query was compared after a mutation since the previous query; distinct = distinct '
                    'event-log digests',
            'samples': samples,
            'queries_compared': tot['compared'],
            'compared_after_mutation': tot['compared_after_mutation'],
            'oracle_processes': tot['oracle_runs'],
            'mutations_by_kind': {k[4:]: v for k, v in tot.items() if k.startswith('mut:')},
            'host_restarts': tot['host_restarts'],
            'queries_in_histories_with_two_live_processes': tot['queries_in_multi_process_histories'],
            'warm_pickle_hits': tot['pickle_hits'],
            'eviction_branch_hits': tot['evict_branch'],
            'histories_by_clock_policy': dict(pol),
            'monotone_histories': tot['monotone_histories'],
            'inconclusive_comparisons': tot['inconclusive'],
            'distinct_state_signatures': len(sigs),
            'state_signature': '(parso cache branches during the query, mutated since last query?, first query after host restart?)',
            'simulated_time_s': sim,
            'faults_fired_by_kind': {'host_restart': tot['host_restarts'],
                                     'non_monotone_clock_histories': ev - tot['monotone_histories']},
        }


def _brief(o):
    if o['op'] == 'query':
        return {'op': 'query', 'path': o['path'], 'imports': [l for l in o['code'].split('\n') if 'import' in l][:5],
                'probes': len(o['probes'])}
    if o['op'] == 'fs':
        return {k: v for k, v in o.items() if k != 'content'}
    return o


def _short(r):
    s = json.dumps(r)
    return s if len(s) < 500 else s[:500] + '...'


ENGINE = C09()
