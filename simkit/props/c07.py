"""
C07 - refactoring results are self-consistent and touch nothing until applied
(disk-effect clauses).

The simulated file system holds a content map of the world.  After EVERY op
the subject reports a digest map of the real disk:
  I1  it equals the model unless the op was apply() (constructing Scripts,
      computing refactorings and inspecting them changes no byte, creates and
      renames nothing)
  I2  after apply() it equals the model updated with exactly the announced
      new code and renames
  I3  get_diff() parses as a unified diff whose hunks turn each original into
      get_new_code() and whose headers / rename lines name exactly
      get_changed_files() / get_renames()
Histories chain refactorings: refactor -> inspect -> apply -> new Script (read
from disk, or unsaved edited buffer) -> refactor -> ...; rename X->Y, apply,
rename Y->X, apply must restore the original bytes.
"""
import collections
import hashlib
import json
import re

from simkit import base, driver, world

MT0 = 1_400_000_000 * 10**9


def _sha(s):
    return hashlib.sha1(s.encode('utf-8', 'surrogateescape')).hexdigest()[:12]


def gen_world_files(rng):
    files = {}
    t = rng.randint(1, 9)
    files['ma.py'] = (
        '"""mod ma"""\n\n\nclass Klass:\n    kattr = 1\n\n    def method(self, a, b=2):\n        """doc"""\n'
        '        return a\n\n\ndef func(x, y=3):\n    """func doc"""\n    return Klass()\n\n\n'
        'VALUE = func(1)  # trailing comment %d\nNUM = 7\n' % t)
    files['mb.py'] = (
        'from ma import func, Klass\nimport ma\n\n\ndef use_b(q):\n    r = func(q)\n    return ma.func(q), r\n\n\n'
        'class SubK(Klass):\n    def method(self, a, b=2):\n        return Klass.method(self, a)\n\n\n'
        'inst_b = SubK()\n')
    files['pa/__init__.py'] = 'from pa import sa\nfrom . import sb\n'
    files['pa/sa.py'] = 'import ma\n\n\ndef func(z):\n    return ma.func(z)\n\n\nCONST_SA = ma.NUM\n'
    files['pa/sb.py'] = 'from pa.sa import func as sa_func\n\nres_sb = sa_func(1)\n'
    # a nested sub-package that refers to the top-level package (changed by a package rename)
    # a module that refers to itself by name: renaming it moves the file AND changes its text
    files['selfref.py'] = 'import selfref\n\n\nSELF_X = 1\nprint(selfref.SELF_X)\n'
    files['pa/inner/__init__.py'] = ''
    files['pa/inner/deep.py'] = 'import pa\nfrom pa import sa\n\nDEEP = sa.func(1)\nX_DEEP = pa.sa.CONST_SA\n'
    main = [
        'import ma',
        'from mb import use_b, SubK',
        'from pa import sa',
        'import pa.sb',
        '',
        '',
        'def local_fn(a, b):',
        '    total = a + b',
        '    # a comment that must survive',
        '    return total * 2',
        '',
        '',
        'value = local_fn(1, 2)',
        'temp = ma.func(1)',
        'print(temp)',
        'other = temp',
        'ma.Klass().method(1)',
        'sa.func(2)',
        'k = SubK()',
        'k.method(3)',
        'use_b(4)',
        'pa.sb.res_sb',
        'big = (1 + 2) * (3 + 4)',
        '',
    ]
    if rng.random() < 0.3:
        # non-ASCII text outside and inside the rewritten nodes (columns are code points)
        main[8] = '    # a comment that must survive: \u00fcn\u00efc\u00f6d\u00e9 \u2603'
        main.insert(16, 'gr\u00f6\u00dfe = local_fn(3, 4)')
    files['main.py'] = '\n'.join(main)
    # some files lack the final newline (must be preserved byte for byte by apply())
    for p in sorted(files):
        if rng.random() < 0.3:
            files[p] = files[p].rstrip('\n')
    # some files have CRLF line ends (apply() must write them back untranslated)
    for p in sorted(files):
        if rng.random() < 0.15:
            files[p] = files[p].replace('\n', '\r\n')
    return files


def find(text, needle, nth=0):
    """(line, col) of the nth occurrence of needle"""
    pos = -1
    for _ in range(nth + 1):
        pos = text.index(needle, pos + 1)
    line = text.count('\n', 0, pos) + 1
    col = pos - (text.rfind('\n', 0, pos) + 1)
    return line, col


REFACTORINGS = [
    # (kind, file, needle, offset, extra)
    ('rename', 'main.py', 'local_fn', 2, {}),
    ('rename', 'main.py', 'ma.func', 4, {}),
    ('rename', 'main.py', 'import ma', 8, {}),          # module rename -> file rename
    ('rename', 'main.py', 'from pa import', 6, {}),     # package rename -> directory rename
    ('rename', 'main.py', 'SubK', 1, {}),
    ('rename', 'main.py', '.method(1)', 2, {}),
    ('rename', 'main.py', 'total', 1, {}),
    ('rename', 'main.py', 'sa.func', 4, {}),
    ('rename', 'main.py', 'from pa import sa', 15, {}),  # submodule rename
    ('rename', 'mb.py', 'use_b', 1, {}),
    ('rename', 'ma.py', 'VALUE', 1, {}),
    ('rename', 'ma.py', 'kattr', 1, {}),
    ('rename', 'pa/sa.py', 'CONST_SA', 1, {}),
    ('rename', 'pa/inner/deep.py', 'import pa', 8, {}),   # package rename seen from a nested sub-package
    ('rename', 'pa/inner/deep.py', 'DEEP', 1, {}),
    ('rename', 'selfref.py', 'import selfref', 9, {}),    # module rename: the moved file itself changes
    ('rename', 'selfref.py', 'selfref.SELF_X', 3, {}),
    ('rename', 'selfref.py', 'SELF_X', 1, {}),
    ('inline', 'main.py', 'temp', 1, {}),
    ('inline', 'main.py', 'value', 1, {}),
    ('inline', 'main.py', 'big', 1, {}),
    ('extract_variable', 'main.py', 'a + b', 0, {'len': 5}),
    ('extract_variable', 'main.py', '(1 + 2)', 0, {'len': 7}),
    ('extract_variable', 'main.py', 'ma.func(1)', 0, {'len': 10}),
    ('extract_function', 'main.py', 'a + b', 0, {'len': 5}),
    ('extract_function', 'main.py', 'total * 2', 0, {'len': 9}),
    ('rename', 'main.py', 'print', 1, {}),                # builtin: RefactoringError or no tree name
    ('inline', 'main.py', 'local_fn', 1, {}),             # refuses
]


def gen_case(seed, tier, i):
    rng = driver.rng_for(seed, 'C07', tier, 'case', i)
    files = gen_world_files(rng)
    init = [{'op': 'fs', 'kind': 'write', 'path': p, 'content': c, 'mt': MT0} for p, c in sorted(files.items())]
    nsteps = rng.randint(2, 5) if tier == 'quick' else rng.randint(2, 9)
    plan = []
    for _ in range(nsteps):
        r = rng.choice(REFACTORINGS)
        plan.append({'ref': list(r[:4]) + [r[4]], 'new': 'nn_%d' % rng.randint(1, 99),
                     'apply': rng.random() < 0.65, 'inspect': rng.randint(0, 2),
                     'unsaved': rng.random() < 0.25, 'from_disk': rng.random() < 0.5,
                     'order': rng.choice(['code_first', 'diff_first', 'diff_first', 'cf_diff_first']),
                     # renaming a name to itself is legal: the announced new code equals the buffer text
                     'identity': rng.random() < 0.12,
                     'inspect_after': rng.random() < 0.6,
                     'back': rng.random() < 0.3,
                     # the project root is not always the directory everything lives in: with the root
                     # set to a sub-directory most files of the step lie OUTSIDE the project (diff headers
                     # then carry absolute paths)
                     'proj_sub': rng.random() < 0.15,
                     'between': rng.choice(['none', 'none', 'gc', 'advance', 'host_restart', 'query'])})
    knobs = {'fast_parser': rng.random() < 0.8, 'cached_size_trigger': rng.choice([2, 600])}
    return {'id': 'c07-%d' % i, 'init': init, 'plan': plan, 'knobs': knobs, 'hashseed': rng.randint(0, 2),
            # the caller's cwd is the project and the Project is given as a relative pathlib.Path
            'relproj': rng.random() < 0.2}


# ---------------------------------------------------------------------------
# the model (driver side)
# ---------------------------------------------------------------------------

class Model:
    def __init__(self, init):
        self.files = {}
        for op in init:
            self.files[op['path']] = op['content']

    def digest(self):
        return {p: _sha(c) for p, c in self.files.items()}

    def apply_refactoring(self, desc):
        for p, code in desc['files'].items():
            rel = _rel(p)
            if rel is None:
                continue
            self.files[rel] = code
        for a, b in desc['renames']:
            ra, rb = _rel(a), _rel(b)
            if ra in self.files:
                self.files[rb] = self.files.pop(ra)
            else:
                for f in [f for f in self.files if f.startswith(ra + '/')]:
                    self.files[rb + f[len(ra):]] = self.files.pop(f)


def _rel(p):
    if p is None or not p.startswith('<w>/'):
        return None
    return p[4:]


def compare_snap(snap, model):
    """disk digest map vs model; returns list of differences"""
    disk = {k: v for k, v in snap.items() if v is not None}
    want = model.digest()
    diffs = []
    for p in sorted(set(disk) | set(want)):
        if disk.get(p) != want.get(p):
            diffs.append([p, 'disk=%s' % disk.get(p), 'model=%s' % want.get(p)])
    return diffs


HUNK = re.compile(r'^@@ -(\d+)(?:,(\d+))? \+(\d+)(?:,(\d+))? @@')


def parse_unified(diff):
    """-> (renames [(from,to)], files [(from, to, hunks)]) or raises ValueError"""
    lines = diff.split('\n')
    # keep line ends: work on split with keepends instead
    lines = diff.splitlines(keepends=True)
    i = 0
    renames = []
    files = []
    while i < len(lines):
        l = lines[i]
        if l.startswith('rename from '):
            frm = l[len('rename from '):].rstrip('\n')
            if i + 1 >= len(lines) or not lines[i + 1].startswith('rename to '):
                raise ValueError('rename from without rename to')
            renames.append((frm, lines[i + 1][len('rename to '):].rstrip('\n')))
            i += 2
            continue
        if l.startswith('--- '):
            if i + 1 >= len(lines) or not lines[i + 1].startswith('+++ '):
                raise ValueError('--- without +++')
            frm = l[4:].rstrip('\n')
            to = lines[i + 1][4:].rstrip('\n')
            i += 2
            hunks = []
            while i < len(lines) and lines[i].startswith('@@'):
                m = HUNK.match(lines[i])
                if not m:
                    raise ValueError('bad hunk header %r' % lines[i])
                a, b, c, d = m.group(1), m.group(2), m.group(3), m.group(4)
                a, c = int(a), int(c)
                b = 1 if b is None else int(b)
                d = 1 if d is None else int(d)
                i += 1
                body = []
                na = nb = 0
                phantom = False
                while (na < b or nb < d):
                    h = lines[i] if i < len(lines) else None
                    at_boundary = h is None or h.startswith('rename from ') or \
                        (h.startswith('--- ') and i + 1 < len(lines) and lines[i + 1].startswith('+++ '))
                    if at_boundary and na == b - 1 and nb == d - 1:
                        # listed finding C07-diff-phantom-eof-line: the ranges count
                        # the empty string after the final newline as a line
                        phantom = True
                        break
                    if h is None:
                        raise ValueError('hunk truncated')
                    if h.startswith(' '):
                        na += 1
                        nb += 1
                    elif h.startswith('-'):
                        na += 1
                    elif h.startswith('+'):
                        nb += 1
                    else:
                        raise ValueError('bad hunk line %r' % h)
                    body.append(h)
                    i += 1
                if phantom:
                    body.append(None)
                hunks.append((a, b, c, d, body))
            files.append((frm, to, hunks))
            continue
        if l.strip() == '':
            i += 1
            continue
        raise ValueError('unexpected line %r' % l)
    return renames, files


def apply_hunks(old, hunks):
    old_lines = old.splitlines(keepends=True)
    out = []
    pos = 0
    for a, b, c, d, body in hunks:
        start = a - 1 if b > 0 else a
        if start < pos:
            raise ValueError('overlapping hunks')
        out += old_lines[pos:start]
        pos = start
        for h in body:
            if h is None:
                # phantom line: legitimate only if the hunk reaches the end of the file
                if pos != len(old_lines):
                    raise ValueError('hunk shorter than announced (not at end of file)')
                continue
            if h.startswith(' '):
                if pos >= len(old_lines) or old_lines[pos] != h[1:]:
                    raise ValueError('context mismatch at old line %d' % (pos + 1))
                out.append(h[1:])
                pos += 1
            elif h.startswith('-'):
                if pos >= len(old_lines) or old_lines[pos] != h[1:]:
                    raise ValueError('removed line mismatch at old line %d' % (pos + 1))
                pos += 1
            else:
                out.append(h[1:])
    out += old_lines[pos:]
    return ''.join(out)


def _world_rel(name, proj_rel):
    """a path as the diff prints it (relative to the project root, or absolute = '<w>/...' when the file
    lies outside the project) -> path relative to the world"""
    if name.startswith('<w>/'):
        return name[4:]
    if proj_rel and not name.startswith('<'):
        import posixpath
        return posixpath.normpath(posixpath.join(proj_rel, name))
    return name


def check_diff(desc, originals, proj_rel=''):
    """I3; originals: rel path -> text jedi started from. returns list of problems"""
    probs = []
    try:
        renames, files = parse_unified(desc['diff'])
    except ValueError as e:
        return [['diff_malformed', str(e)]]
    renames = [(_world_rel(a, proj_rel), _world_rel(b, proj_rel)) for a, b in renames]
    files = [(_world_rel(a, proj_rel), _world_rel(b, proj_rel), h) for a, b, h in files]
    want_ren = sorted((_rel(a) or a, _rel(b) or b) for a, b in desc['renames'])
    if sorted(renames) != want_ren:
        probs.append(['diff_renames', {'diff': sorted(renames), 'api': want_ren}])
    changed = {(_rel(p) or ''): code for p, code in desc['files'].items()}
    seen = set()
    for frm, to, hunks in files:
        seen.add(frm)
        if frm not in changed:
            probs.append(['diff_names_unannounced_file', frm])
            continue
        exp_to = frm
        for a, b in want_ren:
            if frm.startswith(a):
                exp_to = b + frm[len(a):]
        if to != exp_to:
            probs.append(['diff_to_path', {'from': frm, 'to': to, 'expected': exp_to}])
        old = originals.get(frm)
        if old is None:
            continue
        # get_diff documents that it appends a final newline before diffing
        new_n = changed[frm] if changed[frm].endswith('\n') or not changed[frm] else changed[frm] + '\n'
        old = old if old.endswith('\n') or not old else old + '\n'
        if any(None in h[4] for h in hunks):
            probs.append(['phantom_eof_line', {'file': frm}])
        try:
            got = apply_hunks(old, hunks)
        except ValueError as e:
            probs.append(['diff_does_not_apply', {'file': frm, 'why': str(e)}])
            continue
        if got != new_n:
            probs.append(['diff_result_differs_from_new_code', {'file': frm}])
    for p, code in changed.items():
        if p not in seen and originals.get(p) is not None and originals[p] != code:
            probs.append(['changed_file_missing_in_diff', p])
    return probs


# ---------------------------------------------------------------------------

def build_ops(case, model_files):
    """plan -> ops; needs positions in the CURRENT texts, so ops are built step
    by step by the executor (positions depend on earlier applied refactorings)"""
    raise NotImplementedError


class C07(base.Engine):
    pid = 'C07'
    level = 'exploration'
    technique = 'deterministic simulation: simulated file-system content model vs real disk after every op of seeded refactor/inspect/apply histories across cache states and host restarts'
    budgets = (60, 1200)
    assumptions = [
        'only the disk-effect clauses and diff<->new-code agreement on the generated sources (LF and CRLF files, with and without final newline, some non-ASCII text) are decided; byte preservation over all inputs and the exception contract are input-universal and not claimed',
        'no disk faults are injected: the statement promises nothing about a failing apply()',
        'the history is built adaptively: positions for step k are computed from the model content after step k-1',
    ]
    components = {
        'real': ['jedi refactoring + inference', 'parso', 'helper process', 'kernel file system (tmpfs)'],
        'simulated': ['file-system content model (oracle)', 'clock', 'host restarts', 'parser knobs'],
        'stubbed': [],
    }

    def execute(self, case):
        """adaptive: each plan step is turned into ops using the model's current texts
        (positions depend on what earlier refactorings did to the files).  Consecutive
        steps run in ONE long-lived subject (so that state left in the process by an
        earlier Script - unsaved buffers, caches - is there for the next refactoring);
        'host_restart' between steps continues in a new interpreter on the same disk and
        pickle cache."""
        driver.begin_case(case)
        model = Model(case['init'])
        root = driver.new_root('c07')
        stats = collections.Counter()
        problems = []
        events_all = []
        base_spec = {'init': case['init'], 'inv': ['snap', 'sentinel', 'host'], 'cwd': 'w' if case.get('relproj') else None,
                     'ops': [{'op': 'knob', 'name': k, 'value': v} for k, v in sorted(case['knobs'].items())]}
        sub = None
        seg_n = 0
        unsaved_in_cache = set()    # paths whose parso entry (this process) holds an UNSAVED buffer's tree
        clock_ops = []      # advance ops executed so far (process-local clock is rebuilt after a restart)
        try:
            sid_n = 0
            for step in case['plan']:
                kind, path, needle, off, extra = step['ref']
                text = model.files.get(path)
                if text is None or needle not in text:
                    stats['skipped_steps'] += 1
                    continue
                if sub is None:
                    spec = dict(base_spec, ops=base_spec['ops'] + clock_ops, start=0)
                    if seg_n > 0:
                        spec['init'] = []
                    sub = driver.InteractiveSubject(spec, root, hashseed=case.get('hashseed', 0), seg=str(seg_n))
                    seg_n += 1
                sid_n += 1
                sid = 's%d' % sid_n
                code = None if step['from_disk'] else text
                if step['unsaved']:
                    code = text + ('' if text.endswith('\n') else '\n') + '# unsaved edit %d' % sid_n + \
                        ('\n' if text.endswith('\n') else '')
                script_text = code if code is not None else text
                line, col = find(script_text, needle)
                args = {'l': line, 'c': col + off, 'new': step['new']}
                if step.get('identity') and kind == 'rename':
                    ltxt = script_text.split('\n')[line - 1]
                    m = [x for x in re.finditer(r'[A-Za-z_]\w*', ltxt) if x.start() <= col + off <= x.end()]
                    if m:
                        args['new'] = m[0].group(0)
                if 'len' in extra:
                    args['c'] = col
                    args['ul'] = line
                    args['uc'] = col + extra['len']
                proj = {'path': 'pa/inner', 'added_sys_path': ['.']} if step.get('proj_sub') else {'path': '.'}
                if case.get('relproj'):
                    proj = dict(proj, pathlib_rel=True)
                proj_rel = 'pa/inner' if step.get('proj_sub') else ''
                seg = [{'op': 'script', 'sid': sid, 'code': code, 'path': path, 'project': proj},
                       {'op': 'refactor', 'sid': sid, 'rid': 'r', 'kind': kind, 'args': args,
                        'order': step.get('order', 'code_first')}]
                for _ in range(step['inspect']):
                    seg.append({'op': 'refactor_inspect', 'sid': sid, 'rid': 'r',
                                'order': step.get('order', 'code_first')})
                if step['apply']:
                    # stay in the monotone timestamp regime (C09's listed findings are not C07's business):
                    # the files apply() writes get a stamp strictly later than anything parsed before
                    seg.append({'op': 'advance', 'ns': 1500 * 10**6})
                    seg.append({'op': 'refactor_apply', 'sid': sid, 'rid': 'r'})
                    seg.append({'op': 'advance', 'ns': 1500 * 10**6})
                    if step.get('inspect_after', True):
                        # the Refactoring object outlives apply(): its views must not change
                        seg.append({'op': 'refactor_inspect', 'sid': sid, 'rid': 'r',
                                    'order': step.get('order', 'code_first')})
                seg.append({'op': 'drop', 'sid': sid})
                b = step['between']
                if b == 'gc':
                    seg.append({'op': 'gc'})
                elif b == 'advance':
                    seg.append({'op': 'advance', 'ns': 700 * 10**9})
                elif b == 'query':
                    seg.append({'op': 'query', 'code': None, 'path': 'main.py', 'project': {'path': '.'},
                                'probes': [{'m': 'get_names', 'light': True}, {'m': 'infer', 'l': 13, 'c': 1}]})
                desc = None
                applied_here = False
                for op in seg:
                    ev = sub.step(op)
                    if ev is None:
                        err = sub.close()
                        sub = None
                        return {'verdict': 'harness_error', 'detail': {'why': 'interactive subject failed',
                                                                       'stderr': err[-1500:]}}
                    events_all.append(ev)
                    if op['op'] == 'advance':
                        clock_ops.append(op)
                    stats['ops'] += 1
                    res = ev.get('res')
                    if ev.get('inv_bad'):
                        # host-state / sentinel anomalies are C12's business: counted, not judged here
                        stats['c12_invariant_anomalies'] += 1
                    if op['op'] == 'refactor':
                        if isinstance(res, dict):
                            desc = res
                            stats['refactorings_computed'] += 1
                            stats['kind:' + kind] += 1
                            if res['renames']:
                                stats['with_file_renames'] += 1
                            if len(res['files']) > 1:
                                stats['multi_file'] += 1
                            originals = dict(model.files)
                            originals[path] = script_text
                            if res.get('diff_again') != res.get('diff') or res.get('cf_diff_unstable'):
                                problems.append(('get_diff_not_repeatable', {'op': ev['i'], 'kind': kind, 'args': args,
                                                                             'files': res.get('cf_diff_unstable')}))
                            for pr in check_diff(res, originals, proj_rel):
                                f = pr[1].get('file') if isinstance(pr[1], dict) else \
                                    (pr[1] if isinstance(pr[1], str) else None)
                                name = pr[0]
                                if f is not None and f != path and f in unsaved_in_cache and \
                                        name in ('diff_does_not_apply', 'diff_result_differs_from_new_code',
                                                 'changed_file_missing_in_diff'):
                                    # listed finding: ANOTHER file of the refactoring was taken from parso's
                                    # cache, which still holds the tree of an unsaved buffer on that path
                                    name = 'unsaved_buffer_tree_used_for_other_file'
                                problems.append(('I3:' + name, {'op': ev['i'], 'kind': kind, 'args': args,
                                                                'path': path, 'why': pr[1]}))
                        else:
                            stats['refused:%s' % (res[1] if isinstance(res, list) and len(res) > 1 else res)] += 1
                    elif op['op'] == 'refactor_inspect' and desc is not None:
                        if res != desc:
                            what = [k for k in ('files', 'renames', 'diff', 'diff_again')
                                    if not isinstance(res, dict) or res.get(k) != desc.get(k)]
                            problems.append(('inspect_unstable', {'op': ev['i'], 'kind': kind, 'args': args,
                                                                  'after_apply': applied_here, 'differs_in': what}))
                    elif op['op'] == 'refactor_apply':
                        if res == 'applied' and desc is not None:
                            model.apply_refactoring(desc)
                            stats['applied'] += 1
                            applied_here = True
                            for pth in desc['files']:
                                unsaved_in_cache.discard(_rel(pth))     # rewritten: newer mtime invalidates the entry
                        elif isinstance(res, list) and res and res[0] == 'EXC':
                            stats['apply_failed:%s' % res[1]] += 1
                            if res[1] != 'RefactoringError':
                                # no disk fault was injected: apply() of a computed refactoring may refuse
                                # (RefactoringError) but must not die of anything else
                                problems.append(('apply_raised:%s' % res[1], {'op': ev['i'], 'kind': kind, 'args': args}))
                            # the statement promises nothing about the disk after a failed apply(): stop here
                            return self._done(problems, stats, events_all, case)
                    d = compare_snap(ev.get('snap') or {}, model)
                    if d:
                        which = 'I2:after_apply' if op['op'] == 'refactor_apply' else 'I1:changed_before_apply'
                        problems.append((which + ':' + op['op'], {'op': ev['i'], 'kind': kind, 'args': args, 'diff': d[:5]}))
                        return self._done(problems, stats, events_all, case)
                if step['unsaved'] and not applied_here:
                    unsaved_in_cache.add(path)
                if b == 'host_restart':
                    sub.close()
                    sub = None
                    unsaved_in_cache.clear()
                    stats['host_restarts'] += 1
        finally:
            if sub is not None:
                sub.close()
            driver.rm_root(root)
        return self._done(problems, stats, events_all, case)

    def _done(self, problems, stats, events, case):
        st = dict(stats)
        st['digest'] = driver.events_digest([{k: v for k, v in e.items() if k != 'snap'} for e in events])
        if problems:
            problems.sort(key=lambda p: p[0] in ('I3:phantom_eof_line', 'I3:unsaved_buffer_tree_used_for_other_file'))
            return {'verdict': 'violation', 'sig': problems[0][0],
                    'detail': {'problems': [[s, d] for s, d in sorted(problems, key=lambda p: p[0] in ('I3:phantom_eof_line', 'I3:unsaved_buffer_tree_used_for_other_file'))[:80]], 'n': len(problems)}, 'stats': st}
        return {'verdict': 'ok', 'stats': st}

    def run(self, tier, seed, budget_s):
        n = 400 if tier == 'quick' else 20000
        return driver.run_cases('C07', (gen_case(seed, tier, i) for i in range(n)), budget_s=budget_s)

    def shrink(self, case, result):
        sig = result.get('sig')

        def fails(c):
            r = self.execute(c)
            return r['verdict'] == 'violation' and r.get('sig') == sig
        mc, _ = driver.ddmin_ops(self.strip(case), 'plan', fails, budget=25)
        r = self.execute(mc)
        if r['verdict'] != 'violation':
            return case, result
        return mc, r

    def known_match(self, case, result, known):
        probs = (result.get('detail') or {}).get('problems') or []
        n = (result.get('detail') or {}).get('n', 0)
        listed = {k['match']['problem']: k for k in known['findings']
                  if k.get('property') == 'C07' and k.get('match', {}).get('problem')}
        if not probs or n != len(probs):
            return None
        hit = None
        for p in probs:
            k = listed.get(p[0])
            if k is None:
                return None
            if hit is None or k['id'] != 'C07-diff-phantom-eof-line':
                hit = k
        return hit

    def coverage(self, pairs, tier):
        ev = 0
        tot = collections.Counter()
        nontrivial = set()
        samples = []
        for c, r in pairs:
            if r['verdict'] == 'harness_error':
                continue
            ev += 1
            st = r.get('stats', {})
            for k, v in st.items():
                if isinstance(v, int) and not isinstance(v, bool):
                    tot[k] += v
            if st.get('applied'):
                nontrivial.add(st['digest'])
            if len(samples) < 2:
                samples.append({'id': c['id'], 'plan': c['plan'], 'knobs': c['knobs'], 'verdict': r['verdict']})
        return {
            'evaluations': ev,
            'distinct_nontrivial': len(nontrivial),
            'rule': 'one evaluation = one refactor/inspect/apply history on a fresh world; disk digest compared '
                    'with the content model after every op; non-trivial = at least one refactoring was applied '
                    '(so I2 was exercised); distinct = distinct event-log digests',
            'samples': samples,
            'ops_checked_against_model': tot['ops'],
            'refactorings_computed': tot['refactorings_computed'],
            'refactorings_applied': tot['applied'],
            'with_file_or_dir_renames': tot['with_file_renames'],
            'multi_file_refactorings': tot['multi_file'],
            'by_kind': {k[5:]: v for k, v in tot.items() if k.startswith('kind:')},
            'refused': {k[8:]: v for k, v in tot.items() if k.startswith('refused:')},
            'apply_failed': {k[13:]: v for k, v in tot.items() if k.startswith('apply_failed:')},
            'skipped_steps': tot['skipped_steps'],
            'host_restarts': tot['host_restarts'],
            'faults_fired_by_kind': {'host_restart': tot['host_restarts']},
        }


ENGINE = C07()
