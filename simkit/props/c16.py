"""
C16 - results are deterministic and repeatable.

The "faults" are the nondeterminism sources themselves.  One case = one input
(world + buffer + probe table) executed

  base      every probe on its own fresh Script, configuration 0
  configs   the same under other (hash seed, allocator perturbation, GC
            schedule) configurations: ordered results must be identical
            (set-equal for goto)
  schedule  one Script, a seeded permutation with repetitions of the probes
            (failing requests - ValueError / RefactoringError - are ordinary
            members of the probe table): every occurrence must equal the
            base result of that probe
  faulted   the same schedule with 1-3 requests answered by the helper with an
            exception (the protocol's own error channel); every occurrence in
            an op where no fault fired must still equal the base result,
            provided the faulted query *failed* (raised)
"""
import collections
import json

from simkit import base, driver, world
from simkit.canon import is_exc, builtin_representative_differs as _builtin_representative_differs

MT0 = 1_400_000_000 * 10**9
SET_LIKE = ('goto',)


def gen_multi_buffer(rng, mods):
    """buffer with shapes that produce multi-element value sets"""
    b = world.Buffer()
    tops = [m for m in mods if '.' not in m]
    rng.shuffle(tops)
    a, c = tops[0], tops[1 % len(tops)]
    b.add('import %s' % a)
    if c != a:
        b.add('import %s' % c)
    b.add('from %s import *' % a)
    if c != a and rng.random() < 0.6:
        b.add('from %s import *' % c)
    b.add('')
    parts = []

    def cond_call():
        b.add('if %s.NUM:' % a)
        b.add('    pick = %s.func' % a)
        b.add('else:')
        b.add('    pick = %s.func' % c)
        b.add('pick(1, 2)', [('get_signatures', 'pick(', None)])
        b.add('pick', [('infer', 'pic', None), ('goto', 'pic', None)])
        b.add('pick(1).x', [('complete', 'pick(1).', None)])

    def ternary_inst():
        b.add('inst = %s.Klass() if %s.NUM else %s.Klass()' % (a, a, c))
        b.add('inst.method(1)', [('complete', 'inst.', None), ('get_signatures', 'inst.method(', None),
                                 ('infer', 'inst.meth', None)])
        b.add('inst', [('infer', 'ins', None), ('help', 'ins', None)])

    def multi_def():
        b.add('def twice(p):')
        b.add('    return p')
        b.add('')
        b.add('def twice(p, q=1):')
        b.add('    return q')
        b.add('')
        b.add('twice(1)', [('get_signatures', 'twice(', None), ('goto', 'twi', None), ('infer', 'twi', None)])

    def multi_inherit():
        b.add('class Both(%s.Klass, %s.Klass):' % (a, c))
        b.add('    pass')
        b.add('')
        b.add('Both(1).method', [('get_signatures', 'Both(', None), ('complete', 'Both(1).', None),
                                 ('infer', 'Both(1).meth', None)])

    def or_union():
        b.add('u = %s.VALUE or %s.VALUE or "s"' % (a, c))
        b.add('u.x', [('infer', 'u', None), ('complete', 'u.', None)])

    def star_overlap():
        b.add('func(1)', [('infer', 'fun', None), ('goto', 'fun', {'follow_imports': True}),
                          ('get_signatures', 'func(', None)])
        b.add('Klass', [('infer', 'Kla', None), ('get_references', 'Kla', {'scope': 'file'})])

    def alt():
        b.add('%s.ALT(1)' % a, [('get_signatures', 'ALT(', None), ('infer', '.AL', None)])

    def flow():
        b.add('fl = 1')
        b.add('if 0:')
        b.add('    fl = "s"')
        b.add('fl.real', [('complete', 'fl.', None), ('infer', 'fl', None)])

    def refs():
        b.add('def local(zz):')
        b.add('    return zz')
        b.add('local(local(1))', [('get_references', 'loca', None), ('get_references', 'loca', {'scope': 'file'})])
        b.add('%s.func(1)' % a, [('get_references', '.fun', None), ('get_references', '.fun', {'scope': 'file'})])
        b.add('%s.Klass().method' % c, [('get_references', ').meth', {'scope': 'file'})])

    def arith():
        b.add('def calc(a, b):')
        b.add('    total = a + b')
        b.add('    return total * 2')
        b.add('')
        b.add('amount = calc(1, 2)')
        b.add('amount.real', [('infer', 'amoun', None), ('help', 'amoun', None), ('complete', 'amount.', None)])
        b.add('mixed = calc(1, 2) or 7')
        b.add('mixed', [('infer', 'mixe', None), ('goto', 'mixe', None)])

    def case_tie():
        # names that differ only in case tie on the documented completion sort key: their relative
        # order must still not depend on which of them an earlier query looked at first
        if tie_probes:
            return
        b.add('def worker(n):')
        b.add('    return n')
        b.add('')
        b.add('Worker = 1.5')
        b.add('WORKER = "s"')
        b.add('WORKER', [('infer', 'WORK', None), ('goto', 'WORK', None)])
        b.add('Worker', [('infer', 'Work', None)])
        b.add('wor', [('complete', 'wor', None)])
        b.add('worker(1)', [('get_signatures', 'worker(', None), ('get_references', 'work', {'scope': 'file'})])
        tie_probes.append({'m': 'complete_search', 'q': 'wor'})
        tie_probes.append({'m': 'search', 'q': 'worker'})

    tie_probes = []
    parts = [case_tie, case_tie, cond_call, ternary_inst, multi_def, multi_inherit, or_union, star_overlap, alt, flow, flow, refs, refs, arith, arith]
    rng.shuffle(parts)
    for p in parts[:rng.randint(3, 5)]:
        p()
    # failing requests (ordinary members of the probe table)
    probes = list(b.probes)
    nlines = len(b.lines)
    probes.append({'m': 'complete', 'l': nlines + 50, 'c': 0})                 # ValueError
    probes.append({'m': 'infer', 'l': 1, 'c': 500})                             # ValueError
    probes.append({'m': 'rename_diff', 'l': 1, 'c': 0, 'new': 'zz'})           # RefactoringError (keyword)
    probes.append({'m': 'get_names', 'kw': {'all_scopes': True}, 'light': True})
    probes.append({'m': 'get_syntax_errors'})
    probes.append({'m': 'search', 'q': rng.choice(['Klass', 'func', 'pick', 'inst', a + '.func'])})
    probes.append({'m': 'complete_search', 'q': rng.choice(['Kla', 'fun', 'V', a + '.'])})
    probes.append({'m': 'get_context', 'l': max(1, nlines - 1), 'c': 0})
    probes += tie_probes[:2]
    return b.text, probes


def gen_many_calls_buffer(rng, mods):
    """the same project function executed from many distinct call sites: per-query
    budgets (recursion / execution counters) must not leak from query to query"""
    b = world.Buffer()
    tops = [m for m in mods if '.' not in m]
    a = rng.choice(tops)
    b.add('import %s' % a)
    b.add('')
    b.add('def mk(v, w=None):')
    b.add('    return v')
    b.add('')
    b.add('class Box:')
    b.add('    def get(self, z):')
    b.add('        return mk(z)')
    b.add('')
    n = 8
    for j in range(n):
        form = rng.choice(['q%d = mk(%s.Klass())', 'q%d = mk(Box())', 'q%d = Box().get(%s.func(1))', 'q%d = mk(mk(1.5))'])
        line = form % ((j, a) if '%s' in form else (j,))
        kind = rng.choice(['infer', 'infer', 'complete', 'goto'])
        if kind == 'complete':
            b.add(line)
            b.add('q%d.x' % j, [('complete', 'q%d.' % j, None)])
        else:
            b.add(line, [(kind, 'q%d' % j, None)])
    return b.text, list(b.probes)


def gen_dynamic_params_buffer(rng, mods):
    """parameter types inferred from call sites (dynamic params): a self-recursive
    function, functions with many call sites whose distinguishing argument comes late,
    mutually recursive functions - budgets/depth counters of that search must not leak
    from one query into the next"""
    b = world.Buffer()
    tops = [m for m in mods if '.' not in m]
    a = rng.choice(tops)
    b.add('import %s' % a)
    b.add('')
    b.add('def rec(ra):')
    b.add('    ra.x', [('infer', '    ra', None), ('complete', 'ra.', None)])
    b.add('    return rec(ra)')
    b.add('')
    b.add('rec(1.5)')
    b.add('')
    n0 = len(b.probes)
    b.add('def ping(pa):')
    b.add('    pa.x', [('infer', '    pa', None)])
    b.add('    return pong(pa)')
    b.add('')
    b.add('def pong(pb):')
    b.add('    pb.x', [('complete', 'pb.', None)])
    b.add('    return ping(pb)')
    b.add('')
    b.add('ping("s")')
    for p in b.probes[n0:]:
        p['tag'] = 'mutrec'     # parameter of a function inside a call cycle (listed finding)
    b.add('')
    b.add('def many(mb):')
    b.add('    mb.x', [('infer', '    mb', None), ('complete', 'mb.', None)])
    b.add('    return mb')
    b.add('')
    n = rng.randint(11, 16)
    late = rng.randint(10, n - 1)
    for j in range(n):
        b.add('many(%s)' % ('%s.Klass()' % a if j == late else rng.choice(['1', '2', '3'])))
    b.add('')
    b.add('def few(fb):')
    b.add('    fb.x', [('infer', '    fb', None)])
    b.add('    return fb')
    b.add('few(%s.func(1))' % a)
    b.add('few(b"x")')
    return b.text, list(b.probes)


POS_METHODS = [('infer', None), ('goto', None), ('goto', {'follow_imports': True}), ('help', None),
               ('complete', None), ('get_references', None), ('get_references', {'scope': 'file'}),
               ('rename_diff', None), ('get_context', None)]


def gen_all_methods_buffer(rng, mods):
    """few positions, MANY query methods per position: a query that runs in a special mode (file-scope
    reference search, rename, goto without following imports ...) shares the Script's memo tables with
    every other query on related nodes - whatever one of them computes in its mode must not change what
    another one answers afterwards.  Positions: attribute of a parameter whose type comes from the call
    sites, the parameter itself, an instance attribute, a call result."""
    b = world.Buffer()
    tops = [m for m in mods if '.' not in m]
    a = rng.choice(tops)
    b.add('import %s' % a)
    b.add('')
    b.add('class Widget:')
    b.add('    size = 1')
    # names that differ only in case tie on the completion sort key: their relative order must not
    # depend on which of them an earlier query looked up first
    b.add('    Size = 2.5')
    b.add('    SIZE = "s"')
    b.add('')
    b.add('    def area(self, factor):')
    b.add('        return self.size * factor')
    b.add('')
    b.add('')
    pos = []    # (line text, needle)
    b.add('def render(item, scale=2):')
    b.add('    return item.size')
    pos.append((len(b.lines), '    return item.size', 'item.si'))
    pos.append((len(b.lines), '    return item.size', '    return ite'))
    b.add('')
    b.add('')
    b.add('def show(thing, extra):')
    b.add('    return thing.method(extra)')
    pos.append((len(b.lines), '    return thing.method(extra)', 'thing.meth'))
    pos.append((len(b.lines), '    return thing.method(extra)', 'method(ext'))
    b.add('')
    b.add('')
    b.add('render(Widget())')
    b.add('shown = show(%s.Klass(), 1.5)' % a)
    pos.append((len(b.lines), b.lines[-1], 'show'))
    b.add('w = Widget()')
    b.add('w.area(3)')
    pos.append((len(b.lines), 'w.area(3)', 'w.ar'))
    b.add('Shown = w.SIZE')
    pos.append((len(b.lines), 'Shown = w.SIZE', 'w.SI'))
    b.add('SHOWN = Shown')
    pos.append((len(b.lines), 'SHOWN = Shown', 'SHOWN = Show'))
    b.add('shown')
    pos.append((len(b.lines), 'shown', 'show'))
    rng.shuffle(pos)
    probes = []
    for ln, text, needle in pos[:rng.randint(2, 3)]:
        col = text.index(needle) + len(needle)
        methods = rng.sample(POS_METHODS, rng.randint(3, 5))
        if ('complete', None) not in methods:
            methods.append(('complete', None))
        for m, kw in methods:
            p = {'m': m, 'l': ln, 'c': col}
            if kw:
                p['kw'] = kw
            if m == 'rename_diff':
                p['new'] = 'renamed_zz'
            probes.append(p)
    return b.text, probes


def gen_many_files_buffer(rng, files):
    """the buffer (a project module, buf.py) defines a function that MANY other project files
    call or mention: the project-wide name searches behind get_references / rename /
    Project.search and behind the cross-module dynamic-parameter search work under per-query
    limits on opened and parsed files (30 parsed files, 6 for dynamic parameters) - budgets that
    must not depend on what earlier queries of the process left in any cache"""
    n = rng.choice([8, 9, 12, 33, 36])
    exprs = ['1', '"s"', '1.5', 'b"x"', 'Marker%d()']
    for k in range(n):
        e = exprs[k % len(exprs)]
        body = 'from buf import target\n\n\nclass Marker%d:\n    mark_%d = %d\n\n\nres_%d = target(%s)\n' % (
            k, k, k, k, (e % k) if '%d' in e else e)
        files['users/u%02d.py' % k] = body
    files['users/__init__.py'] = ''
    b = world.Buffer()
    b.add('def target(pa, pb=None):')
    b.add('    pa.x', [('infer', '    pa', None), ('complete', 'pa.', None), ('goto', '    pa', None)])
    b.add('    return pa')
    b.add('')
    b.add('')
    # no CALL of target in this file: the parameter types can only come from the call sites in other files
    # (a call here would end the dynamic-parameter search in this module)
    b.add('alias = target', [('get_references', 'targ', None), ('get_references', 'targ', {'scope': 'file'}),
                             ('infer', 'alia', None), ('goto', 'targ', None)])
    b.add('alias.x', [('complete', 'alias.', None)])
    # iterating a list / set literal starts the search for calls that add elements to it
    b.add('for flag in [1.5, "s"]:')
    b.add('    flag', [('infer', '    fla', None)])
    b.add('for member in {2, b"x"}:')
    b.add('    member', [('infer', '    membe', None)])
    probes = list(b.probes)
    probes.append({'m': 'rename_diff', 'l': 1, 'c': 5, 'new': 'target_renamed'})
    probes.append({'m': 'search', 'q': 'target'})
    return b.text, probes


def gen_syspath_buffer(rng, files):
    """a project module that modifies sys.path (statically visible), another module that is
    only importable through the added directory: what one module's sys.path edits do must not
    depend on which query followed which import first"""
    files['shim.py'] = ('import sys\nsys.path.insert(0, %r)\nimport vmod2\n\n\ndef make():\n    return vmod2.Thing()\n'
                        % rng.choice(['vendor', './vendor']))
    files['vendor/vmod.py'] = 'class Gadget:\n    def turn(self):\n        return 1\n\n\ndef fallback():\n    return Gadget()\n'
    files['vendor/vmod2.py'] = 'class Thing:\n    def spin(self):\n        return "s"\n'
    b = world.Buffer()
    b.add('import shim')
    b.add('import vmod')
    b.add('import vmod2 as direct2')
    b.add('')
    b.add('g = vmod.Gadget()', [('infer', 'vmod.Gad', None), ('goto', 'vmod.Gad', {'follow_imports': True})])
    b.add('g.turn', [('complete', 'g.', None)])
    n0 = len(b.probes)
    b.add('x = shim.make()', [('infer', 'x', None)])
    b.add('x.spin', [('complete', 'x.', None), ('infer', 'x.sp', None)])
    b.add('direct2.Thing', [('infer', 'direct2.Th', None)])
    b.add('shim.vmod2.Thing', [('goto', 'vmod2.Th', {'follow_imports': True})])
    for p in b.probes[n0:]:
        # these depend on the module name vmod2, which is imported from two modules with
        # different effective search paths (listed finding: module cache keyed by name only)
        p['tag'] = 'modcache'
    return b.text, list(b.probes)


def gen_case(seed, tier, i):
    rng = driver.rng_for(seed, 'C16', tier, 'case', i)
    w = world.gen_world(rng, n_top=rng.randint(2, 3), with_pkg=rng.random() < 0.3, with_ns=False)
    # make ALT / multi shapes more likely
    init = [{'op': 'fs', 'kind': 'write', 'path': p, 'content': c, 'mt': MT0} for p, c in sorted(w.files.items())]
    family = rng.random()
    force_pathed = False
    if family < 0.12:
        text, probes = gen_many_calls_buffer(rng, list(w.mods))
    elif family < 0.24:
        text, probes = gen_dynamic_params_buffer(rng, list(w.mods))
    elif family < 0.31:
        extra_files = {}
        text, probes = gen_syspath_buffer(rng, extra_files)
        init += [{'op': 'fs', 'kind': 'write', 'path': p, 'content': c, 'mt': MT0} for p, c in sorted(extra_files.items())]
    elif family < 0.38:
        extra_files = {}
        text, probes = gen_many_files_buffer(rng, extra_files)
        init += [{'op': 'fs', 'kind': 'write', 'path': p, 'content': c, 'mt': MT0} for p, c in sorted(extra_files.items())]
        force_pathed = True
    elif family < 0.51:
        text, probes = gen_all_methods_buffer(rng, list(w.mods))
    elif family < 0.59 and world.corpus_slice(driver.rng_for(seed, 'C16', 'corpus-available'))[0]:
        from simkit.props import c08
        cname, text = world.corpus_slice(rng)
        probes = [p for p in c08.sample_probes(rng, text, 24) if p['m'] not in ('get_syntax_errors',)]
    elif family < 0.86:
        text, probes = gen_multi_buffer(rng, list(w.mods))
    else:
        b = world.gen_probe_buffer(rng, list(w.mods), max_probes=7)
        text, probes = b.text, list(b.probes)
        probes.append({'m': 'complete', 'l': 999, 'c': 0})
    rng.shuffle(probes)
    probes = probes[:16]
    # a folder of modules outside the project tree, on the project's search path (Project.search /
    # complete_search list "modules on sys.path" as their last step)
    libnames = ['libmod_' + x for x in rng.sample(['alpha', 'beta', 'gamma', 'delta', 'epsilon', 'zeta', 'eta', 'theta'],
                                                   rng.randint(3, 8))]
    init += [{'op': 'fs', 'kind': 'write', 'path': '../libs/%s.py' % n, 'content': 'def f_%s():\n    return 1\n' % n,
              'mt': MT0} for n in libnames]
    project_ops = [{'op': 'project_search', 'q': 'libmod_', 'complete': True,
                    'project': {'path': '.', 'added_sys_path': ['../libs']}},
                   {'op': 'project_search', 'q': rng.choice(['func', 'Klass', 'libmod_' + 'alpha']), 'complete': False,
                    'all_scopes': rng.random() < 0.5, 'project': {'path': '.', 'added_sys_path': ['../libs']}}]
    nconf = 3 if tier == 'quick' else 6
    configs = [{'hashseed': 0, 'perturb': None, 'gc_auto': False, 'gc_each': False}]
    for j in range(nconf):
        configs.append({
            'hashseed': rng.choice([1, 2, 3, 7, 11, 42, 100, 12345, 99999, 4242424]),
            'perturb': None if rng.random() < 0.3 else {'n': rng.choice([50, 300, 1000, 5000]), 'seed': rng.randint(1, 10**6)},
            'gc_auto': rng.random() < 0.4,
            'gc_each': rng.random() < 0.3,
            # the absolute path of the project is part of what a process sees: vary its length
            'pad': 'p' * rng.choice([0, 0, 1, 2, 3, 5, 8, 13]),
            'reverse': j == 0,
        })
    # schedule: permutation with repetitions, <= 8 distinct probes
    idxs = list(range(len(probes)))
    rng.shuffle(idxs)
    chosen = idxs[:min(8, len(idxs))]
    sched = []
    if family < 0.51:
        sched = list(chosen)        # every probe once (in shuffled order), then repetitions
    for _ in range(rng.randint(8, 16 if tier == 'quick' else 24)):
        sched.append(rng.choice(chosen))
    nf = rng.randint(1, 3)
    faults = [{'pos': rng.randrange(len(sched)), 'frac': rng.random(),
               # KeyboardInterrupt = the user interrupts the host while it is about to send that request
               'exc': rng.choice(['RuntimeError', 'ValueError', 'KeyError', 'AttributeError', 'OSError',
                                  'KeyboardInterrupt', 'KeyboardInterrupt'])}
              for _ in range(nf)]
    # queries that flip temporary switches while they run are the interesting ones to fail
    ref_pos = [k for k, idx in enumerate(sched) if probes[idx]['m'] in ('get_references', 'rename_diff', 'search')]
    if force_pathed:
        ref_pos = []
    if ref_pos and rng.random() < 0.7:
        faults[0]['pos'] = rng.choice(ref_pos)
        faults[0]['frac'] = rng.choice([0.0, 0.0, rng.random()])
    return {'id': 'c16-%d' % i, 'init': init, 'text': text, 'probes': probes, 'configs': configs,
            'project_ops': project_ops,
            'schedule': sched, 'sched_config': rng.randrange(len(configs)), 'faults': faults,
            'pathed': (rng.random() < 0.5) or force_pathed}


# ---------------------------------------------------------------------------

def _script_op(case, sid):
    return {'op': 'script', 'sid': sid, 'code': case['text'], 'path': 'buf.py' if case.get('pathed') else None,
            'project': {'path': '.'}}


def base_ops(case, cfg):
    ops = []
    if cfg.get('perturb'):
        ops.append(dict(cfg['perturb'], op='perturb'))
    order = list(enumerate(case['probes']))
    if cfg.get('reverse'):
        # the same probes, each on its own fresh Script, asked in the opposite order: what one Script's
        # query leaves behind in the PROCESS (settings, module-level tables) must not change another's answer
        order.reverse()
    for i, p in order:
        ops.append(_script_op(case, 'b%d' % i))
        if cfg.get('gc_each'):
            ops.append({'op': 'gc'})
        ops.append({'op': 'probe', 'sid': 'b%d' % i, 'p': p, '_idx': i})
        ops.append({'op': 'drop', 'sid': 'b%d' % i})
    n = len(case['probes'])
    for j, po in enumerate(case.get('project_ops') or []):
        ops.append(dict(po, _idx=n + j))
    return ops


def sched_ops(case, cfg):
    ops = []
    if cfg.get('perturb'):
        ops.append(dict(cfg['perturb'], op='perturb'))
    ops.append(_script_op(case, 'S'))
    for idx in case['schedule']:
        if cfg.get('gc_each'):
            ops.append({'op': 'gc'})
        ops.append({'op': 'probe', 'sid': 'S', 'p': case['probes'][idx], '_idx': idx})
    return ops


def run_ops(case, ops, cfg, faults=None):
    driver.set_pad(cfg.get('pad', ''))
    root = driver.new_root('c16')
    try:
        spec = {'init': case['init'], 'ops': ops, 'faults': faults or [], 'gc_auto': cfg.get('gc_auto', False)}
        return driver.run_subject(spec, root, hashseed=cfg['hashseed'], timeout=110)
    finally:
        driver.rm_root(root)


def norm(probe, res):
    if is_exc(res):
        return res
    if probe['m'] in SET_LIKE:
        return sorted(res, key=repr)
    return res


def collect(ops, run):
    """idx -> list of (op index, result, fired?)"""
    out = collections.defaultdict(list)
    for j, (op, ev) in enumerate(zip(ops, run.events)):
        if op['op'] in ('probe', 'project_search'):
            out[op['_idx']].append((j, ev.get('res'), bool(ev.get('fired')), ev.get('reqs')))
    return out


class C16(base.Engine):
    pid = 'C16'
    level = 'exploration'
    technique = 'deterministic simulation: hash seed x allocator perturbation x GC schedule x query schedule with injected failing requests; cross-run equality oracle'
    budgets = (80, 1500)
    assumptions = [
        'ASLR is switched off (setarch -R) so that object addresses are a function of (hash seed, allocator perturbation, op list); a difference found is a true violation however it was provoked',
        'goto results are compared as sets, everything else as ordered lists',
        'a query during which an injected helper exception was swallowed (did not raise) makes the rest of that Script inconclusive',
        'RecursionError results (sandbox has no typeshed) make a probe inconclusive',
    ]
    components = {
        'real': ['jedi host side', 'jedi helper process', 'parso'],
        'simulated': ['string hash seed', 'allocator state before the queries', 'GC schedule', 'query schedule', 'helper replies replaced by exceptions (pipe proxy)'],
        'stubbed': [],
    }

    def execute(self, case):
        driver.begin_case(case)
        probes = list(case['probes']) + [{'m': 'project_complete_search' if po.get('complete') else 'project_search',
                                          'q': po['q']} for po in case.get('project_ops') or []]
        stats = {'runs': 0, 'order_sensitive_probes': 0, 'compared': 0, 'faults_fired': 0, 'swallowed': 0,
                 'inconclusive': 0, 'multi_valued_probes': 0, 'failing_probes': 0}
        cfg0 = case['configs'][0]
        ops0 = base_ops(case, cfg0)
        r0 = run_ops(case, ops0, cfg0)
        stats['runs'] += 1
        if not r0.complete or len(r0.events) != len(ops0):
            return {'verdict': 'harness_error', 'detail': {'run': 'base', 'rc': r0.rc, 'to': r0.timed_out,
                                                           'stderr': r0.stderr[-1200:]}}
        base_res = {i: lst[0][1] for i, lst in collect(ops0, r0).items()}
        tainted = {i for i, r in base_res.items() if is_exc(r, 'RecursionError')}
        for i, r in base_res.items():
            if isinstance(r, list) and not is_exc(r) and len(r) > 1:
                stats['multi_valued_probes'] += 1
            if is_exc(r):
                stats['failing_probes'] += 1
        digests = [driver.events_digest([{'r': norm(probes[i], base_res[i])} for i in sorted(base_res)])]
        problems = []

        def compare(kind, cfg, idx, j, res, extra=None):
            if idx in tainted or is_exc(res, 'RecursionError'):
                stats['inconclusive'] += 1
                return
            stats['compared'] += 1
            b = base_res[idx]
            if norm(probes[idx], res) != norm(probes[idx], b):
                same_multiset = (not is_exc(res) and not is_exc(b)
                                 and sorted(map(repr, res)) == sorted(map(repr, b)))
                what = 'order' if same_multiset else 'content'
                if what == 'content' and _builtin_representative_differs(probes[idx], res, b):
                    what = 'representative_of_builtin_instance'
                sig = '%s:%s:%s' % (kind, probes[idx]['m'], what)
                if probes[idx].get('tag'):
                    sig += '@' + probes[idx]['tag']
                d = {'probe': probes[idx], 'op': j, 'cfg': cfg, 'got': _short(res), 'base': _short(b)}
                if extra:
                    d.update(extra)
                problems.append((sig, d))

        # part 1: other processes
        for ci, cfg in enumerate(case['configs'][1:], 1):
            ops = base_ops(case, cfg)
            r = run_ops(case, ops, cfg)
            stats['runs'] += 1
            if not r.complete or len(r.events) != len(ops):
                return {'verdict': 'harness_error', 'detail': {'run': 'cfg%d' % ci, 'rc': r.rc, 'to': r.timed_out,
                                                               'stderr': r.stderr[-1200:]}}
            got = collect(ops, r)
            for idx, lst in got.items():
                for j, res, fired, _ in lst:
                    compare('process', cfg, idx, j, res)
            digests.append(driver.events_digest([{'r': got[i][0][1]} for i in sorted(got)]))

        # part 2: schedule on one Script
        cfg = case['configs'][case.get('sched_config', 0) % len(case['configs'])]
        ops = sched_ops(case, cfg)
        rs = run_ops(case, ops, cfg)
        stats['runs'] += 1
        if not rs.complete or len(rs.events) != len(ops):
            return {'verdict': 'harness_error', 'detail': {'run': 'sched', 'rc': rs.rc, 'to': rs.timed_out,
                                                           'stderr': rs.stderr[-1200:]}}
        got = collect(ops, rs)
        for idx, lst in got.items():
            for j, res, fired, _ in lst:
                compare('schedule', cfg, idx, j, res)
        # part 2b: with helper exceptions in between
        probe_ops = [(j, op) for j, op in enumerate(ops) if op['op'] == 'probe']
        faults = []
        for f in case.get('faults') or []:
            j, op = probe_ops[f['pos'] % len(probe_ops)]
            lo, hi = rs.events[j]['reqs']
            if hi >= lo:
                faults.append({'req': lo + int(f['frac'] * (hi - lo + 1)) % (hi - lo + 1),
                               'phase': 'host_interrupt' if f['exc'] == 'KeyboardInterrupt' else 'reply_exception',
                               'exc': f['exc']})
        if faults:
            rf = run_ops(case, ops, cfg, faults=faults)
            stats['runs'] += 1
            if not rf.complete or len(rf.events) != len(ops):
                return {'verdict': 'harness_error', 'detail': {'run': 'faulted', 'rc': rf.rc, 'to': rf.timed_out,
                                                               'stderr': rf.stderr[-1200:]}}
            poisoned = False
            for j, (op, ev) in enumerate(zip(ops, rf.events)):
                if op['op'] != 'probe':
                    continue
                res = ev.get('res')
                if ev.get('fired'):
                    stats['faults_fired'] += len(ev['fired'])
                    if not is_exc(res):
                        # swallowed: jedi turned the helper's exception into an
                        # answer; what that does to later answers is outside
                        # the statement ("failing ones")
                        stats['swallowed'] += 1
                        poisoned = True
                    continue
                if poisoned:
                    stats['inconclusive'] += 1
                    continue
                compare('after_failure', cfg, op['_idx'], j, res, {'faults': faults})
        stats['digest'] = driver.events_digest([{'d': digests}])
        stats['distinct_process_outputs'] = len(set(digests))
        if problems:
            problems.sort(key=lambda p: p[0].endswith('representative_of_builtin_instance') or p[0].endswith('@mutrec') or p[0].endswith('@modcache'))
            return {'verdict': 'violation', 'sig': problems[0][0],
                    'detail': {'problems': [[s, d] for s, d in problems[:4]], 'n': len(problems),
                               'all_sigs': sorted({s for s, _ in problems})}, 'stats': stats}
        return {'verdict': 'ok', 'stats': stats}

    def run(self, tier, seed, budget_s):
        n = 96 if tier == 'quick' else 2000
        cases = (gen_case(seed, tier, i) for i in range(n))
        return driver.run_cases('C16', cases, budget_s=budget_s)

    def shrink(self, case, result):
        sig = result.get('sig')

        def fails(c):
            r = self.execute(c)
            return r['verdict'] == 'violation' and r.get('sig') == sig
        c = json.loads(json.dumps(self.strip(case)))
        kind = (sig or '').split(':')[0]
        # fewer configurations / shorter schedule / fewer faults
        if kind == 'process':
            for ci in range(1, len(c['configs'])):
                cand = dict(c, configs=[c['configs'][0], c['configs'][ci]], schedule=c['schedule'][:1], faults=[])
                if fails(cand):
                    c = cand
                    break
        else:
            cand = dict(c, configs=c['configs'][:1], sched_config=0)
            if fails(cand):
                c = cand
            if kind == 'schedule':
                cand = dict(c, faults=[])
                if fails(cand):
                    c = cand
            mc, _ = driver.ddmin_ops(c, 'schedule', fails, budget=30)
            c = mc
        r = self.execute(c)
        if r['verdict'] != 'violation':
            return case, result
        return c, r

    def known_match(self, case, result, known):
        import re
        probs = (result.get('detail') or {}).get('problems') or []
        sigs = (result.get('detail') or {}).get('all_sigs') or [p[0] for p in probs]
        ks = [k for k in known['findings'] if k.get('property') == 'C16' and k.get('match', {}).get('sig_regex')]
        if not sigs or not ks:
            return None
        hit = None
        for x in sigs:
            m = [k for k in ks if re.fullmatch(k['match']['sig_regex'], x)]
            if not m:
                return None
            if hit is None or result.get('sig') == x:
                hit = m[0]
        return hit

    def coverage(self, pairs, tier):
        ev = runs = 0
        nontrivial = set()
        tot = collections.Counter()
        samples = []
        for c, r in pairs:
            if r['verdict'] == 'harness_error':
                continue
            st = r.get('stats', {})
            ev += 1
            runs += st.get('runs', 0)
            for k in ('compared', 'faults_fired', 'swallowed', 'inconclusive', 'multi_valued_probes', 'failing_probes'):
                tot[k] += st.get(k, 0)
            if st.get('multi_valued_probes') and st.get('compared'):
                nontrivial.add(st.get('digest'))
            if len(samples) < 2:
                samples.append({'id': c['id'], 'text': c['text'], 'probes': c['probes'][:6], 'configs': c['configs'],
                                'schedule': c['schedule'], 'faults': c['faults'], 'verdict': r['verdict']})
        return {
            'evaluations': ev,
            'subject_runs': runs,
            'distinct_nontrivial': len(nontrivial),
            'rule': 'one evaluation = one input executed in base + K configuration processes + one schedule + one '
                    'faulted schedule; non-trivial = the input has at least one probe whose result has >1 element '
                    '(a value set whose iteration order could matter) and at least one comparison was made; '
                    'distinct = distinct digests of the per-process outputs',
            'samples': samples,
            'probe_results_compared': tot['compared'],
            'multi_valued_probes': tot['multi_valued_probes'],
            'failing_requests_in_tables': tot['failing_probes'],
            'faults_fired_by_kind': {'reply_exception': tot['faults_fired']},
            'injected_exceptions_swallowed_by_jedi': tot['swallowed'],
            'inconclusive_comparisons': tot['inconclusive'],
        }


def _short(r):
    s = json.dumps(r)
    return s if len(s) < 400 else s[:400] + '...'


ENGINE = C16()
