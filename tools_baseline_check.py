#!/usr/bin/env python3
"""compare a junit xml of the repo's test suite with /root/.vp/BASELINE.json stable_pass"""
import json, sys, xml.etree.ElementTree as ET
base = json.load(open('/root/.vp/BASELINE.json'))
stable = set(base['stable_pass'])
t = ET.parse(sys.argv[1])
passed = set()
for tc in t.iter('testcase'):
    if not list(tc):
        passed.add('%s::%s' % (tc.get('classname'), tc.get('name')))
missing = sorted(stable - passed)
print('stable_pass', len(stable), 'passed now', len(passed), 'missing', len(missing))
for m in missing[:20]: print('  MISSING', m)
sys.exit(1 if missing else 0)
