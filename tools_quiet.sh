#!/bin/bash
# quietness: several VERIF_SEEDs of every quick check on the unchanged tree; prints only what needs attention
cd "$(dirname "$(readlink -f "$0")")"
for s in "$@"; do for p in C07 C08 C09 C12 C14 C16; do
  out=$(VERIF_SEED=$s VERIF_NO_EVIDENCE=1 ./vcheck run $p --tier quick 2>&1); rc=$?
  echo "seed=$s $p rc=$rc $(echo "$out" | grep -c '^KNOWN-FINDING') known; $(echo "$out" | grep 'evidence written')"
  echo "$out" | grep -E "^VIOLATION|HARNESS|sig=" | cut -c1-400
done; done
