#!/usr/bin/env python3
"""writes MANIFEST.json (kept as a script so that the table stays consistent)"""
import json, os
HERE = os.path.dirname(os.path.abspath(__file__))

CLAIMED = {
 'C14': dict(
   category='fault_enumeration',
   text='Real host + real helper process under a pipe proxy that kills the helper at a chosen request index and protocol phase (before send, after send, reply truncated at 3 cut points, death by BaseException in the handler), idle kills, sequences of up to three deaths incl. death of the replacement during its handshake, seeded GC schedule and clock advances across the 10-minute environment cache. Thorough enumerates every (request, phase-variant) single-fault point of every generated scenario; multi-fault, idle and lifecycle (up to 200 Scripts) plans are seeded search. Judge = executable model of Script-to-helper-generation binding + undisturbed reference run + OS census (zombies, pipe fds, threads) + helper-side state table read through the pipe. Extensions: per-helper-generation model (only Scripts bound to a dead generation may fail; binding a new Script to a helper known to be dead is a violation), two environments alive side by side, a fresh Project per Script so that the simulated clock expires the 10-minute default-environment cache (predecessor helpers must be reaped when unreferenced), gc_now entries that run the collector at a chosen request INSIDE _send (GC schedule at request granularity), flood_then_die (1500 stderr lines, then death in flight), idle kills biased to just before a batch of discarded Scripts is finalised; a subject stopped by its watchdog is a hang (re-run once with a generous limit before it is reported). Scenarios may contain a project module named numpy/pandas/matplotlib/tensorflow (process-wide completion cache keyed by module name); lifecycle runs contain a burst phase (12-20 used Scripts alive at once, dropped together, one collector run, census); flood_then_die also in a binary variant (non-UTF-8 bytes on the stderr of the helper before it dies in flight); the flooded stderr lines contain % characters. The pipe proxy is protocol-agnostic: a flush forwards one message, the next complete reply is pulled when jedi reads.',
   design_ref='DESIGN.md §3 C14',
   note='Helper-internal interleavings finer than a request are not scheduled (single-threaded strict request/reply listener). "At most one query" is read as at most one Script constructed after the death; Scripts bound to the dead helper may keep raising InternalError. A silent or hanging (alive but mute) helper is not injected. The stderr drain thread runs unscheduled.',
   technique='deterministic simulation with fault injection: seeded helper-death schedules through a pipe proxy, model-based judge, exhaustive single-fault sweep in thorough'),
 'C16': dict(
   category='exploration',
   text='The nondeterminism sources are the explored dimensions: each generated input (world + buffer with multi-valued shapes + probe table incl. failing requests) is executed in a base process (every probe on a fresh Script) and in K further processes differing in PYTHONHASHSEED, seeded allocator perturbation and GC schedule (ASLR off, so a run is a function of its spec); then on ONE Script under a seeded schedule (permutation with repetitions, ValueError/RefactoringError requests in between) and under the same schedule with 1-3 helper replies replaced by exceptions through the pipe proxy. Oracle: every occurrence of a probe, in any process or schedule position, equals the base result as an ordered list (set for goto). Input families: multi-valued shapes, many call sites of one function, dynamic-parameter search (self-recursive, mutually recursive, many call sites with a late distinguishing argument), arithmetic on literals; the length of the project path is a further configuration dimension; injected helper exceptions are biased towards reference/rename/search queries. Further families: few positions asked with 3-5 of {infer, goto, goto(follow_imports), help, complete, get_references, get_references(file), rename, get_context} each; a function used by 8-36 other project files (per-query limits of the project-wide name search); KeyboardInterrupt in the host at a chosen helper request as a further failing-query kind; one process configuration asks the probes in reversed order (each on its own fresh Script) so that state a query leaves in the process shows; list and set literal loops; names that differ only in case (ties on the completion sort key) in project modules; slices of the repository\'s completion fixtures (corpus).',
   design_ref='DESIGN.md §3 C16',
   note='Seeded sampling of (hash seed, heap layout, schedule); a clean batch is evidence, not proof. Asynchronous exceptions in the host are injected only as KeyboardInterrupt at the moment a helper request is about to be sent. A query that swallowed an injected helper exception (did not raise) makes the rest of that Script inconclusive. RecursionError results are inconclusive (no typeshed in this sandbox).',
   technique='deterministic simulation: seeded hash-seed x allocator x GC x query-schedule exploration with injected failing requests, cross-run equality oracle'),
 'C08': dict(
   category='exploration',
   text='Seeded edit histories (line/char insert/delete/replace, indent/dedent, paste from project files, undo, char-by-char typing, callee-signature edits that keep the call site, moving/renaming definitions) over 1-3 buffers (pathed and path-less, interleaved) in ONE long-lived subject whose clock is simulated (advances from 1 ms to 1 day and backwards, crossing the 3 s signature cache, the 10 min parso eviction cutoff and the 10 min environment cache) and whose cache knobs are drawn per run (parso size trigger 1/2/8/600 so the eviction path runs, signature validity 0/3/1e6, fast_parser on/off), with clear_time_caches, Project.search and GC ops in between. After every edit a new Script answers 4-10 probes at positions sampled from the current text; oracle = a pristine process (empty caches, new helper) asked the same probes on the same text. The precondition (incremental tree == from-scratch parse) is checked at every step. Further families: every query re-asks the previous step\'s positional probes of the buffer (sticky probes); an existing project module is opened as a buffer by absolute or cwd-relative path after an importing buffer was analysed; settings.fast_parser is flipped in mid-history. About 15 % of the buffers are slices of the repository\'s own completion fixtures (corpus: decorators, descriptors, nested scopes, comprehensions, broken code) under the same edit ops; 10 % of the cases are a directed signature-cache family (call sites that never move - single-line, continued on later lines, nested, through a rebound name - while the callees change underneath and the clock moves around the 3 s window); star-import lines are toggled among the edits.',
   design_ref='DESIGN.md §3 C08',
   note='Seeded sampling of histories, not enumeration. Buffers never import unsaved open buffers. Per-probe comparison as sorted multisets; RecursionError inconclusive; a mismatch is re-checked against a second oracle process under another hash seed and dropped as oracle-unstable if the oracle disagrees with itself.',
   technique='deterministic simulation: seeded edit-history + simulated clock + cache-knob buggify in a long-lived process, pristine-process reference oracle per step'),
 'C09': dict(
   category='exploration',
   text='Seeded file-system histories on a generated project (write new, overwrite same/different size, overwrite via rename, delete, rename, module<->package, add/remove __init__.py, add/remove stub, older file renamed onto a module, touch, submodule changes, a sys.path entry that appears late) where EVERY mtime/atime the code can observe is assigned by the simulator from a simulated file-system clock (policies: strictly monotone, coarse 1 s/2 s ticks, backward steps, constant skew against the process clock), simulated time.time() advances from 0 to 40 days (crossing parso lock/sweep thresholds), host restarts that continue the same history in a new interpreter on the warm pickle directory with a new helper, cache-size knob. Oracle after every query: a pristine process with an empty cache on a copy of the current files (stale names are self-identifying through per-version identifier pools). Discrepancy in a monotone history = VIOLATION; in a non-monotone history the engine replays the counterfactual (same ops, strictly increasing stamps for files only / directories only / both) and reports KNOWN-FINDING only if that passes. Also: burst rewrites (same size, stamps a few ms apart inside one second), project-wide file scans (project-scope get_references, Project.search for names that exist only in the current version), and histories with TWO host processes alive at the same time that share the project and the pickle directory but nothing else (ops are routed to a process; clock advances go to both). Also: crowd queries (11-16 further Scripts on the same text alive during a query, each compared with a pristine process doing the same, all finalised in one collector run) and \'tab storm\' histories (8-12 rounds of rewrite + crowd).',
   design_ref='DESIGN.md §3 C09',
   note='Mutations never land inside a query; torn pickles are not injected; seeded sampling. The two listed timestamp findings live in parso and importlib and are reported as KNOWN-FINDING only after counterfactual confirmation.',
   technique='deterministic simulation: seeded file-system histories with simulator-assigned timestamps + host restarts on warm cache, pristine-process oracle, counterfactual replay'),
 'C12': dict(
   category='exploration',
   text='Partial claim: the stateful, two-process content of the statement. Adversarial worlds in which every Python file writes a sentinel when executed (names: conftest, setup, sitecustomize, usercustomize, __main__, gi module/package = settings.auto_import_modules, manage, test_*, _json, math, *.pth, buildout script), project options default / explicit sys_path / added_sys_path / smart_sys_path off / buffer inserting the project into sys.path, subject cwd inside or outside the project. After EVERY op of a seeded session (queries of all kinds, Script.search, Project.search, rename refactorings incl. apply(), helper killed idle or mid-request, helper replies replaced by exceptions at get_module_info/load_module, host restart on the warm pickle cache) the invariants are evaluated: no sentinel; host sys.path/cwd/environ equal baseline and no world module in host sys.modules; helper sys.path/cwd equal their value at helper start (read through the pipe) and no world module in helper sys.modules. Also: sessions on InterpreterEnvironment (compiled analysis inside the host), optional \'\' entry on the host\'s sys.path, unresolvable imports in buffers, and the placement of the project relative to the environment\'s own sys.path (elsewhere / nested below an entry / sibling whose name starts with an entry). Shadow names: project files named like modules that machinery inside the helper imports lazily while looking a module up (setuptools / pkg_resources for the distutils shim on sys.meta_path; _codecs_kr, _multibytecodec, stringprep, quopri behind a PEP 263 cookie), with buffers importing distutils and cookie-declaring modules; the corner (empty-string entry on the sys.path of the host AND cwd inside the project) is entered with adversarial names nothing in the host imports on its own, and so is the corner in which the sys.path of the host holds the absolute project directory (helper-based environments only).',
   design_ref='DESIGN.md §3 C12',
   note='Not decided: completeness over all project configurations and all routes to __import__ in code the sessions never drive (Interpreter; django/pytest plug-in paths needing those packages). load_unsafe_extensions stays False. Seeded sampling.',
   technique='deterministic simulation: adversarial side-effecting worlds, standing sentinel + host/helper state-conservation invariants after every op, with helper crashes / injected helper exceptions / host restarts'),
 'C07': dict(
   category='exploration',
   text='Partial claim: the disk-effect clauses and diff<->new-code agreement on generated sources. A content model of the project is kept by the simulator; after EVERY op of seeded histories (Script from disk or from an unsaved edited buffer, rename of functions/classes/attributes/modules/packages/submodules, inline, extract_variable, extract_function, repeated inspection, apply(), GC, clock advance, queries, with a new interpreter on the same disk and warm pickle cache between steps) the real disk is digested and compared: I1 nothing changes before apply(); I2 after apply() the disk equals the model updated with exactly get_changed_files()[p].get_new_code() and get_renames(); I3 get_diff() parses as a unified diff whose hunks turn each original into get_new_code() and whose headers/rename lines name exactly the changed and renamed files; repeated inspection returns the same object. A history runs in ONE long-lived interactive subject per host segment (ops are sent one at a time because positions depend on earlier results), so process state left by earlier Scripts (unsaved buffers, caches) is present; refactor ops carry the order in which an editor calls get_diff()/get_new_code(); some files lack the final newline; a package rename reaches a nested sub-package; apply() dying of anything but RefactoringError is a violation (no disk fault is injected). Worlds also contain CRLF files and non-ASCII text inside and outside the rewritten nodes, a module that imports itself (its rename moves AND changes the file), and steps whose Project root is a sub-directory so that most files lie outside the project; 20 % of the cases run with cwd = project and a Project built from a relative pathlib.Path.',
   design_ref='DESIGN.md §3 C07',
   note='Not decided: byte preservation and diff well-formedness over all inputs (CRLF, missing final newline, unicode), and the exception contract - input-universal. No disk faults injected (the statement promises nothing about a failing apply()). One listed finding (hunk ranges count a phantom line at EOF) is tolerated by the diff parser in exactly that form and reported as KNOWN-FINDING.',
   technique='deterministic simulation: simulated file-system content model vs real disk after every op of seeded refactor/inspect/apply histories'),
}

NA = {
 'C01': 'pure function of (text, position): totality over inputs has no schedule, clock, fault or history for a simulator to own; history/crash-dependent breakage of it surfaces in the C08/C14 oracles, which compare exceptions too',
 'C02': 'pure function of the analysed program; needs program generation + execution as oracle (differential testing), not simulation',
 'C03': 'pure function of the analysed program (scoping rules); no nondeterminism or fault in the statement',
 'C04': 'pure function of (text, position, fuzzy flag); order stability across hash seeds/addresses is covered under C16',
 'C05': 'pure function of the program; behavioural equivalence needs execution of both programs; restore of temporary switches and rename-apply-rename-back are covered under C16/C07',
 'C06': 'pure function of (program, selection); no schedule, fault or history in the statement',
 'C10': 'pure function of (directory layout, import statement) with importlib as oracle; layout *transitions* are covered under C09',
 'C11': 'pure function of (definition, call prefix); staleness of signatures is covered under C08, order under C16',
 'C13': 'pure function of the object graph handed to Interpreter, in-process, no helper, clock or I/O',
 'C15': 'deterministic work bound of a pure function; a complexity claim, not liveness after faults stop; budget leakage between queries is covered under C16',
 'C17': 'pure function of the text; stale positions after in-place tree updates are covered under C08',
 'C18': 'pure function of the text',
 'C19': 'pure function of the directory tree; Project.search is among the C09 probes for staleness',
 'C20': 'pure function of constructor arguments; save/load is two deterministic steps with no crash claim',
}
PENDING = {
}

def main():
    checks = []
    for pid, c in sorted(CLAIMED.items()):
        checks.append({
            'property_id': pid,
            'quick_cmd': './vcheck run %s --tier quick' % pid,
            'thorough_cmd': './vcheck run %s --tier thorough' % pid,
            'evidence_file': 'evidence/%s.json' % pid,
            'replay_cmd_template': './vcheck replay {path}',
            'engine': 'simkit',
            'level_claimed': {'category': c['category'], 'text': c['text'], 'design_ref': c['design_ref']},
            'level_note': c['note'],
            'technique': c['technique'],
        })
    na = [{'property_id': k, 'reason': v} for k, v in sorted({**NA, **PENDING}.items()) if k not in CLAIMED]
    m = {
        'version': 1,
        'setup_cmd': "/venv/bin/python -c 'import parso, sys; sys.path.insert(0, \"/repo\"); import jedi'",
        'hooks': {
            'guard': 'JV_GUARD',
            'enable': 'no source hooks: every seam is a module attribute patched from outside in the subject interpreter (jedi.cache.time, parso.cache.time, jedi.debug.time, jedi.inference.compiled.subprocess._GeneralizedPopen, parso.cache._save_to_file_system/_load_from_file_system/_touch); subjects run with PYTHONPATH=/repo so they always execute the current working tree',
            'baseline_off_cmd': 'cd /repo && /venv/bin/python -m pytest -ra -q -p no:cacheprovider --timeout=900 --continue-on-collection-errors',
            'source_commits': [],
            'add_only': True,
        },
        'engines': [{
            'name': 'simkit', 'path': 'simkit/',
            'serves_properties': sorted(CLAIMED),
            'kind_free_text': 'deterministic simulation with fault injection: seeded op/fault lists executed by fresh subject interpreters under clock, file-stamp, helper-pipe, GC, hash-seed and allocator seams; model and reference-run oracles; ddmin shrinking; replay files',
        }],
        'checks': checks,
        'not_applicable': na,
        'notes': 'Exit codes: 0 held, 1 VIOLATION printed, 2 harness error. Genuine defects repaired in /repo: see known_findings.json "fixed". Recorded findings print KNOWN-FINDING lines.',
    }
    with open(os.path.join(HERE, 'MANIFEST.json'), 'w') as f:
        json.dump(m, f, indent=1)
    print('checks:', [c['property_id'] for c in checks], 'n/a:', len(na))

if __name__ == '__main__':
    main()
